package main

// C13 — Dump decompiles to an equivalent, re-compilable expression: the
// literal codec (writer/reader agreement), printable leaf types, the layout
// agreement for `if` children, and event-node skipping.

import (
	"fmt"
	"go/token"
	"go/types"
	"sort"
	"strings"
	"unicode"

	"golang.org/x/tools/go/ssa"
)

func init() {
	register(&Property{
		ID:    "C13",
		Level: "other",
		Explanation: "Decides the literal-codec clause and two sibling-agreement clauses: (R-CODEC) the lexer's string rule is 'raw text up to the next quote': the call closure of lex contains no unescaping callee (strconv.Unquote*); therefore the closure of Dump must contain no escaping callee (strconv.Quote*, AppendQuote*, a %q verb) — and conversely; a writer that escapes for a reader that does not unescape cannot round-trip any literal containing a backslash, a line break or a tab, all of which the lexer accepts; " +
			"(R-LEAFTYPES) dumpLeafNode has a case for every static type of value the parser puts into constant nodes (string, []string, []int64; int64 and bool through the default) and prints it in a form the prefix lexer/parser accepts: a string between two double quotes with nothing else added, lists between ( and ) with elements separated by a space rune, integers in base 10, variables by their name; " +
			"(R-IFLAYOUT) the positions Dump selects among the program-ordered children of an `if` node (condition, true branch, false branch) are consistent with the order in which calAndSetNodes emits the four children (condition, true branch, fi, false branch): selecting position k must yield source child 0, 1, 2; (R-DUMPSKIP) the child enumeration excludes event nodes (as in C12); (R-DUMPROOT) the printed tree starts at the node whose parent index is -1 and every non-leaf is printed as ( name children… ). " +
			"(R-EVREMAP) calAndSetEventNode rebuilds node array and parent table entry by entry in step (an event node mirrors its real node), records every appended node's position in the index table keyed by its original index, and relabels scIdx/parents through the right table under the -1 guards: the parent table Dump reads in event mode is an exact relabelling. " +
			"(R-FMTDATA) in every fmt formatting call of the package the format string is built from constants and integers only, program text is an operand; (R-INTBASE) every integer parse of the lexer/parser reads base 10. Constants of Go types the lexer cannot produce (ConstantMap floats, maps folded from user operators) are outside the property's literal domain. NOT decided: that the rebuilt text equals the program on every binding (fast-operator layout, folded constants), idempotence of dump/compile. Round 2: R-IFLAYOUT — the selection among the children of an `if` node is what the child lookup answers with; R-KIND and R-ORDER shared.",
		Run:       runC13,
		Witnesses: append(append(append(append([]Witness{}, delWitnessesC13...), piecewiseListWitnesses...), listValuePhiWitnesses...), c13Witnesses...),
	})
}

func runC13(w *World, r *Report) {
	// the dumped text compiles again only if the program respects the limits Compile enforces on source text
	ruleOrder(w, r)
	ruleCodec(w, r)
	ruleLeafTypes(w, r)
	ruleIfLayout(w, r)
	ruleDumpSkip(w, r)
	ruleDumpVerbatim(w, r)
	ruleEvRemap(w, r)
	ruleIntBase(w, r)
	ruleFmtData(w, r)
	// Dump prints what the node holds: the value of a node keeps the type its kind promises (no later overwrite)
	ruleKind(w, r)
}

// ruleDumpVerbatim: text that has been rendered (a leaf, a nested expression)
// is only ever concatenated or written, never passed through a callee that
// transforms text: such a callee cannot tell the inside of a string literal
// from layout (splitting on line breaks to indent is what broke multi-line
// literals).
func ruleDumpVerbatim(w *World, r *Report) {
	const rule = "R-DUMPVERBATIM"
	r.Rule(rule, "rendered text in Dump flows only into concatenation, Sprintf arguments and Builder writes, never into a text-transforming callee", 1)
	dump := w.MustFn(r, rule, "Dump")
	if dump == nil {
		return
	}
	set := w.Closure(w.VTA, []*ssa.Function{dump}, true)
	transforming := func(name string) bool {
		if !strings.HasPrefix(name, "strings.") {
			return false
		}
		switch name {
		case "strings.Join", "strings.Repeat", "strings.Contains", "strings.ContainsRune", "strings.HasPrefix", "strings.HasSuffix", "strings.Count", "strings.Index":
			return false
		}
		return true
	}
	bad := 0
	n := 0
	for _, fn := range w.SortedFuncs(set) {
		EachInstr(fn, func(in ssa.Instruction) {
			c, ok := in.(*ssa.Call)
			if !ok {
				return
			}
			name := calleeFullName(&c.Call)
			if name == "" {
				return
			}
			n++
			if !transforming(name) {
				return
			}
			// is an argument rendered text? (result of the recursive helper or of dumpLeafNode, or a Builder's String())
			for _, a := range c.Call.Args {
				if renderedText(a, 0) {
					bad++
					r.Fail(rule, w.InstrPos(c), w.Name(fn), describe(c), "already-rendered text is passed through "+name+": the inside of a string literal is treated as layout")
				}
			}
		})
	}
	if bad == 0 {
		r.OK(rule, w.Pos(dump.Pos()), "Dump", fmt.Sprintf("%d static call sites in Dump's closure", n), "no text-transforming callee receives rendered text")
	}
}

// renderedText: the value is (derived from) the text returned by the
// recursive dump helper, dumpLeafNode, or a Builder.
func renderedText(v ssa.Value, depth int) bool {
	if depth > 5 || !isStringLike(v.Type()) {
		return false
	}
	switch x := v.(type) {
	case *ssa.Extract:
		if c, ok := x.Tuple.(*ssa.Call); ok {
			if isDynamicCall(&c.Call) {
				return true // the recursive helper (called through its variable)
			}
			if f := c.Call.StaticCallee(); f != nil && nm(f) == "dumpLeafNode" {
				return true
			}
		}
	case *ssa.Call:
		name := calleeFullName(&x.Call)
		if name == "(*strings.Builder).String" || name == "fmt.Sprintf" || name == "fmt.Sprint" {
			return true
		}
	case *ssa.Phi:
		for _, e := range x.Edges {
			if renderedText(e, depth+1) {
				return true
			}
		}
	case *ssa.BinOp:
		return renderedText(x.X, depth+1) || renderedText(x.Y, depth+1)
	}
	return false
}

func ruleCodec(w *World, r *Report) {
	const rule = "R-CODEC"
	r.Rule(rule, "writer/reader agreement on string escaping: Dump escapes if and only if the lexer unescapes", 2)
	lex := w.MustFn(r, rule, "(*parser).lex")
	dump := w.MustFn(r, rule, "Dump")
	if lex == nil || dump == nil {
		return
	}
	lexSet := w.Closure(w.VTA, []*ssa.Function{lex}, true)
	for _, an := range lex.AnonFuncs {
		lexSet[an] = true
	}
	dumpSet := w.Closure(w.VTA, []*ssa.Function{dump}, true)
	var unesc, esc []string
	for _, fn := range w.SortedFuncs(lexSet) {
		EachInstr(fn, func(in ssa.Instruction) {
			if c, ok := in.(ssa.CallInstruction); ok {
				n := calleeFullName(c.Common())
				if strings.HasPrefix(n, "strconv.Unquote") {
					unesc = append(unesc, n+"@"+w.InstrPos(in))
				}
			}
		})
	}
	for _, fn := range w.SortedFuncs(dumpSet) {
		EachInstr(fn, func(in ssa.Instruction) {
			c, ok := in.(ssa.CallInstruction)
			if !ok {
				return
			}
			n := calleeFullName(c.Common())
			if strings.HasPrefix(n, "strconv.Quote") || strings.HasPrefix(n, "strconv.AppendQuote") {
				esc = append(esc, n+"@"+w.InstrPos(in))
			}
			if strings.HasPrefix(n, "fmt.") && len(c.Common().Args) > 0 {
				for _, a := range c.Common().Args {
					if s, oks := constString(a); oks && strings.Contains(s, "%q") {
						esc = append(esc, "%q@"+w.InstrPos(in))
					}
				}
			}
		})
	}
	r.Extra["codec"] = map[string]interface{}{"lexer_unescapes": unesc, "dump_escapes": esc, "lexer_closure": len(lexSet), "dump_closure": len(dumpSet)}
	r.Check((len(unesc) > 0) == (len(esc) > 0), rule, w.Pos(dump.Pos()), "Dump/lex", fmt.Sprintf("lexer unescaping callees %v; Dump escaping callees %v", unesc, esc),
		"writer and reader agree (today: neither escapes)", "the writer escapes string literals for a reader that takes them raw (or vice versa): literals containing \\, a tab or a line break do not survive Dump")
	if len(lexSet) < 5 || len(dumpSet) < 4 {
		r.Unresolved(rule, "closures of lex/Dump shrank unexpectedly")
	}
	// the lexer's string rule: scan to the next quote rune, and the token value strips exactly the two quotes
	quoteOK := false
	for _, an := range lex.AnonFuncs {
		EachInstr(an, func(in ssa.Instruction) {
			bo, ok := in.(*ssa.BinOp)
			if ok && bo.Op == token.EQL {
				if c, okc := constInt(bo.Y); okc && c == '"' {
					if _, isLoadV := isLoad(bo.X); isLoadV {
						quoteOK = true
					}
				}
			}
		})
	}
	r.Check(quoteOK, rule, w.Pos(lex.Pos()), w.Name(lex), "string scan terminator", "a string ends at the next double quote (no escape processing)", "the lexer's string rule is no longer 'up to the next quote'")
}

// ---- R-LEAFTYPES --------------------------------------------------------------

func ruleLeafTypes(w *World, r *Report) {
	const rule = "R-LEAFTYPES"
	r.Rule(rule, "dumpLeafNode prints every constant type the parser creates in a form the prefix notation re-reads", 5)
	fn := w.MustFn(r, rule, "dumpLeafNode")
	if fn == nil {
		return
	}
	name := w.Name(fn)
	k := loadNodeKinds(w)
	// static types the parser stores into constant nodes
	created := map[string]bool{}
	for _, g := range w.Funcs {
		if !strings.Contains(w.Name(g), "parser") {
			continue
		}
		EachInstr(g, func(in ssa.Instruction) {
			st, ok := in.(*ssa.Store)
			if !ok {
				return
			}
			tn, fld, base, okf := fieldOf(st.Addr)
			if !okf || tn != "node" || fld != "value" {
				return
			}
			al, isLit := base.(*ssa.Alloc)
			if !isLit {
				return
			}
			if kc, okk := literalKind(al); !okk || kc != k.constant {
				return
			}
			// valNode(v Value) stores its parameter: the call sites' argument types are looked at below
			for _, t := range dynTypesOf(st.Val, map[ssa.Value]bool{}) {
				created[types.TypeString(t, nil)] = true
			}
		})
		// arguments of valNode
		EachInstr(g, func(in ssa.Instruction) {
			c, ok := in.(*ssa.Call)
			if !ok || c.Call.StaticCallee() == nil || nm(c.Call.StaticCallee()) != "valNode" {
				return
			}
			arg := c.Call.Args[len(c.Call.Args)-1]
			for _, t := range dynTypesOf(arg, map[ssa.Value]bool{}) {
				created[types.TypeString(t, nil)] = true
			}
		})
	}
	r.Extra["constant_types_created_by_parser"] = sortedKeys(created)
	// cases of the type switch
	val := func(v ssa.Value) bool {
		base, ok := loadOfField(v, "node", "value")
		return ok && base == ssa.Value(fn.Params[0])
	}
	type tcase struct {
		ta  *ssa.TypeAssert
		val ssa.Value
		okv ssa.Value
	}
	cases := map[string]tcase{}
	EachInstr(fn, func(in ssa.Instruction) {
		ta, ok := in.(*ssa.TypeAssert)
		if !ok || !ta.CommaOk || !val(ta.X) {
			return
		}
		c := tcase{ta: ta}
		for _, ref := range referrers(ta) {
			if ex, ok := ref.(*ssa.Extract); ok {
				if ex.Index == 0 {
					c.val = ex
				} else {
					c.okv = ex
				}
			}
		}
		cases[types.TypeString(ta.AssertedType, nil)] = c
	})
	// default arm uses fmt.Sprint: fine for int64 and bool only
	var uncovered []string
	for t := range created {
		if _, ok := cases[t]; ok {
			continue
		}
		if t == "int64" || t == "bool" {
			continue
		}
		uncovered = append(uncovered, t)
	}
	sort.Strings(uncovered)
	r.Check(len(uncovered) == 0 && len(created) >= 4, rule, w.Pos(fn.Pos()), name, fmt.Sprintf("constant types created by the parser: %v", sortedKeys(created)), "each has a printing case (int64/bool through the default fmt.Sprint)", fmt.Sprintf("no printing case for %v: the default %%v form is not re-readable", uncovered))

	// which result does each case produce: the phi edge whose predecessor is dominated by ok == true
	resultOf := func(c tcase) (ssa.Value, *ssa.BasicBlock) {
		for _, ret := range allReturns(fn) {
			phi, ok := ret.Results[0].(*ssa.Phi)
			if !ok {
				continue
			}
			for i, e := range phi.Edges {
				pred := phi.Block().Preds[i]
				for _, f := range append(factsAt(pred), factsAtEdgeTo(pred, phi.Block())...) {
					if f.Cond == c.okv && f.Truth {
						return e, pred
					}
				}
			}
		}
		// the case returns by itself (`return X, true` in the case, or the join folded back by splitret.go)
		for _, ret := range allReturns(fn) {
			for _, f := range factsAt(ret.Block()) {
				if f.Cond == c.okv && f.Truth {
					return ret.Results[0], ret.Block()
				}
			}
		}
		return nil, nil
	}
	// string
	if c, ok := cases["string"]; ok {
		res, _ := resultOf(c)
		tc := &termCtx{leaf: func(v ssa.Value) string {
			if v == c.val {
				return "V"
			}
			return ""
		}}
		t := ""
		if res != nil {
			t = tc.term(res)
		}
		r.Check(t == `(("\"" ++ V) ++ "\"")`, rule, w.InstrPos(c.ta), name, "string constant printed as "+t, "the raw text between two double quotes", "a string literal is not printed as \"raw text\": it does not lex back to the same literal")
	} else {
		r.Fail(rule, w.Pos(fn.Pos()), name, "case string", "missing")
	}
	// lists
	for _, lt := range []string{"[]string", "[]int64"} {
		c, ok := cases[lt]
		if !ok {
			r.Fail(rule, w.Pos(fn.Pos()), name, "case "+lt, "missing")
			continue
		}
		res, pred := resultOf(c)
		if res == nil {
			r.Fail(rule, w.InstrPos(c.ta), name, "case "+lt, "result not found")
			continue
		}
		// the joined form: "(" + strings.Join(elems, " ") + ")" with elems collected over the whole list
		if done := leafListJoined(w, r, rule, name, lt, c.ta, c.val, res); done {
			continue
		}
		// the builder: res = sb.String()
		call, okc := res.(*ssa.Call)
		if !okc || calleeFullName(&call.Call) != "(*strings.Builder).String" {
			r.Fail(rule, w.InstrPos(c.ta), name, "case "+lt, "not built with a strings.Builder")
			continue
		}
		sb := call.Call.Args[0]
		var open, close, sep []int64
		elemOK := false
		var elemDesc string
		// the loop over the list
		var hdr *ssa.BasicBlock
		EachInstr(fn, func(in ssa.Instruction) {
			if ia, ok := in.(*ssa.IndexAddr); ok && ia.X == c.val {
				if h, okh := rangeIndexHeader(ia.Index, c.val); okh {
					hdr = h
				}
			}
		})
		if hdr == nil {
			r.Fail(rule, w.InstrPos(c.ta), name, "case "+lt, "no loop over all elements of the list")
			continue
		}
		_ = pred
		// what one iteration writes for the element: the writes of the blocks every iteration passes through, in
		// order (one WriteString of a concatenation, or the same text in pieces)
		type part struct {
			call *ssa.Call
			text string
			form string
		}
		var parts []part
		elemTC := &termCtx{leaf: func(v ssa.Value) string {
			if _, _, ok := rangeElemOfAny(v, c.val); ok {
				return "E"
			}
			return ""
		}}
		for _, ref := range referrers(sb) {
			wc, ok := ref.(*ssa.Call)
			if !ok {
				continue
			}
			callee := calleeFullName(&wc.Call)
			blk := wc.Block()
			everyIter := edgeDominates(hdr, 0, blk) && loopVisitsAll(hdr, blk)
			switch callee {
			case "(*strings.Builder).WriteRune", "(*strings.Builder).WriteByte":
				rn, okr := constInt(wc.Call.Args[1])
				if !okr {
					continue
				}
				switch {
				case everyIter && callee == "(*strings.Builder).WriteByte", everyIter && lt == "[]string" && rn == '"':
					parts = append(parts, part{call: wc, text: fmt.Sprintf("%q", string(rune(rn)))})
				case edgeDominates(hdr, 0, blk):
					sep = append(sep, rn)
				case edgeDominates(hdr, 1, blk):
					close = append(close, rn)
				case blk.Dominates(hdr):
					open = append(open, rn)
				}
			case "(*strings.Builder).WriteString":
				arg := wc.Call.Args[1]
				if !everyIter {
					if edgeDominates(hdr, 0, blk) {
						elemDesc = "element not written on every iteration"
					}
					continue
				}
				p := part{call: wc, text: elemTC.term(arg)}
				if fc, ok := arg.(*ssa.Call); ok && calleeFullName(&fc.Call) == "strconv.FormatInt" {
					base, _ := constInt(fc.Call.Args[1])
					_, _, isElem := rangeElemOfAny(fc.Call.Args[0], c.val)
					p.form = fmt.Sprintf("FormatInt(E, %d)", base)
					if !(base == 10 && isElem) {
						p.form += " (wrong)"
					}
				}
				parts = append(parts, p)
			}
		}
		sort.SliceStable(parts, func(i, j int) bool {
			a, b := parts[i].call, parts[j].call
			if a.Block() == b.Block() {
				return instrIndex(a) < instrIndex(b)
			}
			return a.Block().Dominates(b.Block())
		})
		if len(parts) > 0 {
			var flat []string
			for _, p := range parts {
				flat = append(flat, strings.NewReplacer("(", "", ")", "").Replace(p.text))
			}
			joined := strings.Join(flat, " ++ ")
			if lt == "[]string" {
				elemDesc = joined
				elemOK = joined == `"\"" ++ E ++ "\""`
			} else {
				elemDesc = parts[0].form
				if elemDesc == "" {
					elemDesc = joined
				}
				elemOK = len(parts) == 1 && parts[0].form == "FormatInt(E, 10)"
			}
		}
		// the separator is written only between elements (index != 0)
		sepOK := len(sep) == 1 && unicode.IsSpace(rune(sep[0]))
		r.Check(len(open) == 1 && open[0] == '(' && len(close) == 1 && close[0] == ')' && sepOK && elemOK, rule, w.InstrPos(c.ta), name,
			fmt.Sprintf("%s printed as %q elements %s separated by %q then %q", lt, runes(open), elemDesc, runes(sep), runes(close)),
			"a parenthesised, space-separated list of re-readable elements", "the list is not printed in the form the prefix list parser accepts (delimiters, separator or element form)")
	}
	// variables print their name, operators without children as (name)
	varOK := false
	for _, ret := range allReturns(fn) {
		poss := k.kindsPossibleAt(ret.Block(), func(n ssa.Value) bool { return n == ssa.Value(fn.Params[0]) })
		if poss != nil && len(poss) == 1 && poss[k.variable] {
			if c, ok := ret.Results[0].(*ssa.Call); ok && calleeFullName(&c.Call) == "fmt.Sprint" {
				varOK = true
			}
		}
	}
	r.Check(varOK, rule, w.Pos(fn.Pos()), name, "variable leaf", "printed by its name", "a variable is not printed by its name")
}

// leafListJoined recognises  open + strings.Join(elems, sep) + close  where elems receives one appended element
// per iteration of a full range over the list; it reports false when res has another form.
func leafListJoined(w *World, r *Report, rule, name, lt string, ta *ssa.TypeAssert, list ssa.Value, res ssa.Value) bool {
	outer, ok := res.(*ssa.BinOp)
	if !ok || outer.Op != token.ADD {
		return false
	}
	inner, ok := outer.X.(*ssa.BinOp)
	if !ok || inner.Op != token.ADD {
		return false
	}
	join, ok := inner.Y.(*ssa.Call)
	if !ok || calleeFullName(&join.Call) != "strings.Join" {
		return false
	}
	open, _ := constString(inner.X)
	close, _ := constString(outer.Y)
	sep, _ := constString(join.Call.Args[1])
	// elems: the loop-carried slice at the exit of the full range over the list
	elemOK, elemDesc := false, "?"
	if acc, isPhi := join.Call.Args[0].(*ssa.Phi); isPhi {
		hdr := acc.Block()
		full := false
		if iff, okIf := hdr.Instrs[len(hdr.Instrs)-1].(*ssa.If); okIf {
			if cmp, okc := iff.Cond.(*ssa.BinOp); okc && cmp.Op == token.LSS {
				if x, okl := lenArg(cmp.Y); okl && x == list {
					if h, okh := rangeIndexHeader(cmp.X, list); okh && h == hdr {
						full = edgeDominates(hdr, 1, join.Block())
					}
				}
			}
		}
		startsEmpty, everyIter := true, true
		var elem ssa.Value
		for i, e := range acc.Edges {
			pred := hdr.Preds[i]
			if !hdr.Dominates(pred) {
				switch x := e.(type) {
				case *ssa.MakeSlice:
					if n, okn := constInt(x.Len); !okn || n != 0 {
						startsEmpty = false
					}
				default:
					if !isNilConst(e) {
						startsEmpty = false
					}
				}
				continue
			}
			app, okA := e.(*ssa.Call)
			if !okA || calleeFullName(&app.Call) != "builtin.append" || app.Call.Args[0] != ssa.Value(acc) {
				everyIter = false
				continue
			}
			if vs := variadicElems(app.Call.Args[1]); len(vs) == 1 {
				elem = vs[0]
			} else {
				everyIter = false
			}
		}
		if full && startsEmpty && everyIter && elem != nil {
			if lt == "[]string" {
				tc := &termCtx{leaf: func(v ssa.Value) string {
					if _, _, ok := rangeElemOfAny(v, list); ok {
						return "E"
					}
					return ""
				}}
				elemDesc = tc.term(elem)
				elemOK = elemDesc == `(("\"" ++ E) ++ "\"")`
			} else if fc, ok := elem.(*ssa.Call); ok && calleeFullName(&fc.Call) == "strconv.FormatInt" {
				base, _ := constInt(fc.Call.Args[1])
				_, _, isElem := rangeElemOfAny(fc.Call.Args[0], list)
				elemDesc = fmt.Sprintf("FormatInt(E, %d)", base)
				elemOK = base == 10 && isElem
			} else {
				elemDesc = describe(elem)
			}
		} else {
			elemDesc = fmt.Sprintf("collection not recognised (whole list: %v, starts empty: %v, one append per iteration: %v)", full, startsEmpty, everyIter)
		}
	}
	// the same with an indexed fill: elems := make([]string, len(list)); elems[i] = element(i) on every iteration
	if ms, isMake := join.Call.Args[0].(*ssa.MakeSlice); isMake && isLenOf(ms.Len, list) {
		stores, every, full := 0, true, false
		var elem ssa.Value
		for _, ref := range referrers(ms) {
			ia, okI := ref.(*ssa.IndexAddr)
			if !okI {
				continue
			}
			hdr, okH := rangeIndexHeader(ia.Index, list)
			if !okH {
				every = false
				continue
			}
			for _, ref2 := range referrers(ia) {
				st, okS := ref2.(*ssa.Store)
				if !okS || st.Addr != ssa.Value(ia) {
					continue
				}
				stores++
				elem = st.Val
				for _, p := range hdr.Preds {
					if hdr.Dominates(p) && !st.Block().Dominates(p) {
						every = false
					}
				}
				full = edgeDominates(hdr, 1, join.Block())
			}
		}
		if stores == 1 && every && full && elem != nil {
			if lt == "[]string" {
				tc := &termCtx{leaf: func(v ssa.Value) string {
					if _, _, ok := rangeElemOfAny(v, list); ok {
						return "E"
					}
					return ""
				}}
				elemDesc = tc.term(elem)
				elemOK = elemDesc == `(("\"" ++ E) ++ "\"")`
			} else if fc, ok := elem.(*ssa.Call); ok && calleeFullName(&fc.Call) == "strconv.FormatInt" {
				base, _ := constInt(fc.Call.Args[1])
				_, _, isElem := rangeElemOfAny(fc.Call.Args[0], list)
				elemDesc = fmt.Sprintf("FormatInt(E, %d)", base)
				elemOK = base == 10 && isElem
			} else {
				elemDesc = describe(elem)
			}
		} else {
			elemDesc = fmt.Sprintf("indexed fill not recognised (stores: %d, on every iteration: %v, whole list: %v)", stores, every, full)
		}
	}
	sepOK := len(sep) == 1 && unicode.IsSpace(rune(sep[0]))
	r.Check(open == "(" && close == ")" && sepOK && elemOK, rule, w.InstrPos(ta), name,
		fmt.Sprintf("%s printed as %q + strings.Join(elements %s, %q) + %q", lt, open, elemDesc, sep, close),
		"a parenthesised, space-separated list of re-readable elements", "the list is not printed in the form the prefix list parser accepts (delimiters, separator or element form)")
	return true
}

func runes(xs []int64) string {
	var sb strings.Builder
	for _, x := range xs {
		sb.WriteRune(rune(x))
	}
	return sb.String()
}

func mayFollowBlock(a, b *ssa.BasicBlock) bool { return a == b || reachable(a, b) }

// firstLoopBlock: a block in a cycle that uses the builder (nil-safe helper).
func firstLoopBlock(sb ssa.Value) *ssa.BasicBlock {
	for _, ref := range referrers(sb) {
		b := ref.Block()
		for _, s := range b.Succs {
			if reachable(s, b) {
				return b
			}
		}
	}
	if len(referrers(sb)) > 0 {
		return referrers(sb)[0].Block()
	}
	return nil
}

// rangeElemOfAny matches a load of X[i] with i a full range index over X.
func rangeElemOfAny(v ssa.Value, X ssa.Value) (*ssa.BasicBlock, ssa.Value, bool) {
	addr, ok := isLoad(v)
	if !ok {
		return nil, nil, false
	}
	ia, ok := addr.(*ssa.IndexAddr)
	if !ok || ia.X != X {
		return nil, nil, false
	}
	hdr, okh := rangeIndexHeader(ia.Index, X)
	return hdr, ia.Index, okh
}

// ---- R-IFLAYOUT ---------------------------------------------------------------

func ruleIfLayout(w *World, r *Report) {
	const rule = "R-IFLAYOUT"
	r.Rule(rule, "Dump's selection among the program-ordered children of an `if` node agrees with calAndSetNodes' emission order of (condition, true branch, fi, false branch)", 1)
	cs := w.MustFn(r, rule, "calAndSetNodes")
	dump := w.MustFn(r, rule, "Dump")
	if cs == nil || dump == nil {
		return
	}
	// emission order in calAndSetNodes: recursive calls on root.children[k] with constant k, in execution order
	type em struct {
		k   int64
		pos int
	}
	var ems []em
	for _, b := range cs.Blocks {
		for i, in := range b.Instrs {
			c, ok := in.(*ssa.Call)
			if !ok || c.Call.StaticCallee() != cs {
				continue
			}
			addr, okl := isLoad(c.Call.Args[1])
			if !okl {
				continue
			}
			ia, oki := addr.(*ssa.IndexAddr)
			if !oki {
				continue
			}
			if _, okc := loadOfField(ia.X, "astNode", "children"); !okc {
				continue
			}
			kc, okk := constInt(ia.Index)
			if !okk {
				continue
			}
			ems = append(ems, em{kc, b.Index*10000 + i})
		}
	}
	// they must be totally ordered by dominance: sort by (block dominance, index)
	sort.Slice(ems, func(i, j int) bool { return ems[i].pos < ems[j].pos })
	var order []int64
	for _, e := range ems {
		order = append(order, e.k)
	}
	// the if node itself is emitted after child 0: irrelevant to the order among children
	// selection in Dump: the [3]int16 literal res[a], res[b], res[c]
	var sel []int64
	selUsed := false
	for _, an := range dump.AnonFuncs {
		EachInstr(an, func(in ssa.Instruction) {
			al, ok := in.(*ssa.Alloc)
			if !ok {
				return
			}
			arr, oka := deref(al.Type()).Underlying().(*types.Array)
			if !oka || arr.Len() != 3 {
				return
			}
			if bt, okb := arr.Elem().Underlying().(*types.Basic); !okb || bt.Kind() != types.Int16 {
				return
			}
			tmp := make([]int64, 3)
			n := 0
			for _, ref := range referrers(al) {
				ia, ok := ref.(*ssa.IndexAddr)
				if !ok {
					continue
				}
				slot, oks := constInt(ia.Index)
				if !oks {
					continue
				}
				for _, ref2 := range referrers(ia) {
					st, ok := ref2.(*ssa.Store)
					if !ok || st.Addr != ssa.Value(ia) {
						continue
					}
					if addr, okl := isLoad(st.Val); okl {
						if src, oki := addr.(*ssa.IndexAddr); oki {
							if kc, okk := constInt(src.Index); okk {
								tmp[slot] = kc
								n++
							}
						}
					}
				}
			}
			if n == 3 {
				sel = tmp
				// the selection is what the closure answers with: the slice of this literal reaches a return
				seen := map[ssa.Value]bool{}
				var reaches func(v ssa.Value) bool
				reaches = func(v ssa.Value) bool {
					if seen[v] {
						return false
					}
					seen[v] = true
					for _, ref := range referrers(v) {
						switch x := ref.(type) {
						case *ssa.DebugRef:
							continue
						case *ssa.IndexAddr:
							if v == ssa.Value(al) {
								continue // the element stores of the literal itself
							}
							return true
						case *ssa.Slice:
							if reaches(x) {
								return true
							}
						case *ssa.Phi:
							if reaches(x) {
								return true
							}
						default:
							// returned, stored into the result variable, ranged over, measured, passed on: the selection is used
							return true
						}
					}
					return false
				}
				selUsed = reaches(al)
			}
		})
	}
	if len(order) != 4 || len(sel) != 3 {
		r.Unresolved(rule, fmt.Sprintf("emission order %v / selection %v not recognised", order, sel))
		return
	}
	good := true
	for src := int64(0); src < 3; src++ {
		if sel[src] < 0 || sel[src] > 3 || order[sel[src]] != src {
			good = false
		}
	}
	r.Check(selUsed, rule, w.Pos(dump.Pos()), "Dump", "the selection among the children of an `if` node is what the child lookup answers with", "the selected positions are returned", "the selection among the children of an `if` node is computed and thrown away: the fi marker is printed as a fourth operand")
	r.Check(good, rule, w.Pos(dump.Pos()), "Dump/calAndSetNodes", fmt.Sprintf("children emitted in order %v; Dump selects positions %v", order, sel), "position k of the selection is source child k (condition, true branch, false branch)", "Dump picks the wrong children of an `if` node for the layout the compiler emits: branches are swapped or the fi marker is printed")
}

var c13Witnesses = append(append(evRemapWitnesses, wave3WitnessesC13...), []Witness{
	{Name: "benign-list-joined-indexed-fill", Rule: "R-LEAFTYPES", Benign: true, Edits: []Edit{
		{File: "util.go", Old: "\t\tvar sb strings.Builder\n\t\tsb.WriteRune('(')\n\t\tfor idx, s := range v {\n\t\t\tif idx != 0 {\n\t\t\t\tsb.WriteRune(' ')\n\t\t\t}\n\t\t\tsb.WriteString(`\"` + s + `\"`)\n\t\t}\n\t\tsb.WriteRune(')')\n\t\tres = sb.String()\n", New: "\t\telems := make([]string, len(v))\n\t\tfor idx, s := range v {\n\t\t\telems[idx] = `\"` + s + `\"`\n\t\t}\n\t\tres = \"(\" + strings.Join(elems, \" \") + \")\"\n"}}},
	{Name: "list-joined-indexed-fill-skips-first", Rule: "R-LEAFTYPES", Edits: []Edit{
		{File: "util.go", Old: "\t\tvar sb strings.Builder\n\t\tsb.WriteRune('(')\n\t\tfor idx, s := range v {\n\t\t\tif idx != 0 {\n\t\t\t\tsb.WriteRune(' ')\n\t\t\t}\n\t\t\tsb.WriteString(`\"` + s + `\"`)\n\t\t}\n\t\tsb.WriteRune(')')\n\t\tres = sb.String()\n", New: "\t\telems := make([]string, len(v))\n\t\tfor idx, s := range v {\n\t\t\tif idx == 0 && len(v) > 3 {\n\t\t\t\tcontinue\n\t\t\t}\n\t\t\telems[idx] = `\"` + s + `\"`\n\t\t}\n\t\tres = \"(\" + strings.Join(elems, \" \") + \")\"\n"}}},
	{Name: "list-joined-indexed-fill-unquoted", Rule: "R-LEAFTYPES", Edits: []Edit{
		{File: "util.go", Old: "\t\tvar sb strings.Builder\n\t\tsb.WriteRune('(')\n\t\tfor idx, s := range v {\n\t\t\tif idx != 0 {\n\t\t\t\tsb.WriteRune(' ')\n\t\t\t}\n\t\t\tsb.WriteString(`\"` + s + `\"`)\n\t\t}\n\t\tsb.WriteRune(')')\n\t\tres = sb.String()\n", New: "\t\telems := make([]string, len(v))\n\t\tfor idx, s := range v {\n\t\t\telems[idx] = s\n\t\t}\n\t\tres = \"(\" + strings.Join(elems, \" \") + \")\"\n"}}},
	{Name: "benign-list-printed-with-strings-join", Rule: "R-LEAFTYPES", Benign: true, Edits: []Edit{
		{File: "util.go", Old: "\t\tvar sb strings.Builder\n\t\tsb.WriteRune('(')\n\t\tfor idx, s := range v {\n\t\t\tif idx != 0 {\n\t\t\t\tsb.WriteRune(' ')\n\t\t\t}\n\t\t\tsb.WriteString(`\"` + s + `\"`)\n\t\t}\n\t\tsb.WriteRune(')')\n\t\tres = sb.String()\n", New: "\t\telems := make([]string, 0, len(v))\n\t\tfor _, s := range v {\n\t\t\telems = append(elems, `\"`+s+`\"`)\n\t\t}\n\t\tres = \"(\" + strings.Join(elems, \" \") + \")\"\n"}}},
	{Name: "list-joined-with-comma", Rule: "R-LEAFTYPES", Edits: []Edit{
		{File: "util.go", Old: "\t\tvar sb strings.Builder\n\t\tsb.WriteRune('(')\n\t\tfor idx, s := range v {\n\t\t\tif idx != 0 {\n\t\t\t\tsb.WriteRune(' ')\n\t\t\t}\n\t\t\tsb.WriteString(`\"` + s + `\"`)\n\t\t}\n\t\tsb.WriteRune(')')\n\t\tres = sb.String()\n", New: "\t\telems := make([]string, 0, len(v))\n\t\tfor _, s := range v {\n\t\t\telems = append(elems, `\"`+s+`\"`)\n\t\t}\n\t\tres = \"(\" + strings.Join(elems, \",\") + \")\"\n"}}},
	{Name: "list-joined-skips-first-element", Rule: "R-LEAFTYPES", Edits: []Edit{
		{File: "util.go", Old: "\t\tvar sb strings.Builder\n\t\tsb.WriteRune('(')\n\t\tfor idx, s := range v {\n\t\t\tif idx != 0 {\n\t\t\t\tsb.WriteRune(' ')\n\t\t\t}\n\t\t\tsb.WriteString(`\"` + s + `\"`)\n\t\t}\n\t\tsb.WriteRune(')')\n\t\tres = sb.String()\n", New: "\t\telems := make([]string, 0, len(v))\n\t\tfor k, s := range v {\n\t\t\tif k == 0 {\n\t\t\t\tcontinue\n\t\t\t}\n\t\t\telems = append(elems, `\"`+s+`\"`)\n\t\t}\n\t\tres = \"(\" + strings.Join(elems, \" \") + \")\"\n"}}},
	{Name: "dump-quotes-with-strconv", Rule: "R-CODEC", Edits: []Edit{
		{File: "util.go", Old: "		res = `\"` + v + `\"`", New: "		res = strconv.Quote(v)"}}},
	{Name: "dump-list-elements-percent-q", Rule: "R-CODEC", Edits: []Edit{
		{File: "util.go", Old: "			sb.WriteString(`\"` + s + `\"`)", New: "			sb.WriteString(fmt.Sprintf(\"%q\", s))"}}},
	{Name: "lexer-unquotes-strings", Rule: "R-CODEC", Edits: []Edit{
		{File: "parser.go", Old: "			tk.val = t[1 : len(t)-1] // remove quotes\n			tk.typ = str", New: "			tk.val = t[1 : len(t)-1] // remove quotes\n			if u, err := strconv.Unquote(t); err == nil {\n				tk.val = u\n			}\n			tk.typ = str"}}},
	{Name: "int-list-in-hex", Rule: "R-LEAFTYPES", Edits: []Edit{
		{File: "util.go", Old: "			sb.WriteString(strconv.FormatInt(i, 10))", New: "			sb.WriteString(strconv.FormatInt(i, 16))"}}},
	{Name: "list-comma-separated", Rule: "R-LEAFTYPES", Edits: []Edit{
		{File: "util.go", Old: "	case []int64:\n		var sb strings.Builder\n		sb.WriteRune('(')\n		for idx, i := range v {\n			if idx != 0 {\n				sb.WriteRune(' ')\n			}", New: "	case []int64:\n		var sb strings.Builder\n		sb.WriteRune('(')\n		for idx, i := range v {\n			if idx != 0 {\n				sb.WriteRune(',')\n			}"}}},
	{Name: "string-single-quoted", Rule: "R-LEAFTYPES", Edits: []Edit{
		{File: "util.go", Old: "		res = `\"` + v + `\"`", New: "		res = `'` + v + `'`"}}},
	{Name: "string-list-case-deleted", Rule: "R-LEAFTYPES", Edits: []Edit{
		{File: "util.go", Old: "	case []string:\n		var sb strings.Builder\n		sb.WriteRune('(')\n		for idx, s := range v {\n			if idx != 0 {\n				sb.WriteRune(' ')\n			}\n			sb.WriteString(`\"` + s + `\"`)\n		}\n		sb.WriteRune(')')\n		res = sb.String()\n", New: ""}}},
	{Name: "dump-if-selects-fi", Rule: "R-IFLAYOUT", Edits: []Edit{
		{File: "util.go", Old: "				res[3], // false branch", New: "				res[2], // false branch"}}},
	{Name: "compiler-emits-false-branch-before-fi", Rule: "R-IFLAYOUT", Edits: []Edit{
		{File: "compiler.go", Old: "				trueBranch  = root.children[1]\n				falseBranch = root.children[2]\n				endIfNode   = root.children[3]", New: "				trueBranch  = root.children[2]\n				falseBranch = root.children[1]\n				endIfNode   = root.children[3]"}}},
	{Name: "dump-reindents-rendered-text", Rule: "R-DUMPVERBATIM", Edits: []Edit{
		{File: "util.go", Old: "			sb.WriteString(\"\\n\" + childIndent + cc)", New: "			for _, cs := range strings.Split(cc, \"\\n\") {\n				sb.WriteString(\"\\n\" + childIndent + strings.TrimLeft(cs, \" \"))\n			}"}}},
	{Name: "benign-string-builder-for-quotes", Benign: true, Edits: []Edit{
		{File: "util.go", Old: "			sb.WriteString(`\"` + s + `\"`)", New: "			quoted := \"\\\"\" + s + \"\\\"\"\n			sb.WriteString(quoted)"}}},
}...)


// dynTypesOf lists the concrete types an interface value can hold as far as they are visible: the operand type of a
// conversion to the interface, through phis (`var val Value = strs; if … { val = ints }`). A value of unknown origin
// (a parameter, a map lookup) contributes nothing.
func dynTypesOf(v ssa.Value, seen map[ssa.Value]bool) []types.Type {
	if seen[v] {
		return nil
	}
	seen[v] = true
	switch x := v.(type) {
	case *ssa.MakeInterface:
		return dynTypesOf(x.X, seen)
	case *ssa.Phi:
		var out []types.Type
		for _, e := range x.Edges {
			out = append(out, dynTypesOf(e, seen)...)
		}
		return out
	case *ssa.ChangeInterface:
		return dynTypesOf(x.X, seen)
	}
	if _, isIface := v.Type().Underlying().(*types.Interface); isIface {
		return nil
	}
	return []types.Type{v.Type()}
}
