package main

// C11 — variables read the value bound to their name under any key layout.

import (
	"fmt"
	"go/token"
	"go/types"
	"sort"
	"strings"

	"golang.org/x/tools/go/ssa"
)

func init() {
	register(&Property{
		ID:    "C11",
		Level: "other",
		Explanation: "Decides the registration and selection clauses: (R-KEYSTABLE) in GetOrRegisterKey every update of VariableKeyMap[name] executes only on the not-present edge of the lookup of that same name (an existing assignment is never changed); the in-loop assignment additionally only on the absent edge of a lookup of the assigned key in a set that was filled from every current value of the map (a key is never given to two names); the post-loop assignment of len+1 rests on a pigeonhole step whose loop shape (i from 1 while i <= len, leave at the first free i) is checked; no other function of the package writes a VariableKeyMap except copyConfig into its dst; " +
			"(R-FETCHGATE) NewCtxFromVars constructs the slice-backed fetcher only under minKey <= maxKey && 0 <= minKey && maxKey < K for the (min,max) = varKeyRange of the same config, varKeyRange computes min and max over all values, the undefined-variable mode takes the map fetcher, SliceVarFetcher.Get/Set/Cached index only under int(key) < len(s), and NewSliceVarFetcher allocates maxKey+1 slots; " +
			"(R-UNIFY) unifyType has a case for every type the statement lists (int, int8, int16, int32, uint8..uint64, []int, []int32, time.Time, time.Duration) yielding int64 / []int64 built by conversion, .Unix() or division by the constant time.Second, element i from element i, and both fetcher constructors pass every bound value through it; " +
			"(R-VARNODE) the variable node built by parseVariable carries the token's text as name and VariableKeyMap[that same text] as key, parseUnknownVariable uses UndefinedVarKey, and MapVarFetcher looks up by name / SliceVarFetcher by key. NOT decided: the value read end-to-end under permuted layouts; exhaustion of the int16 key space. Round 2: R-FETCHGATE — no way into Ctx.VariableFetcher carries the nil interface.",
		Run:       runC11,
		Witnesses: append(append(append([]Witness{}, delWitnessesC11...), keySetShapeWitnesses...), c11Witnesses...),
	})
}

func runC11(w *World, r *Report) {
	ruleKeyStable(w, r)
	ruleFetchGate(w, r)
	ruleUnify(w, r)
	ruleVarNode(w, r)
	// the evaluators hand each variable node's own keys to the fetcher and its own value to the operator
	runC03Sites(w, r)
	ruleStepArgs(w, r, ruleStepRes(w, r, "(*Expr).Eval"))
	ruleFastProxy(w, r)
	ruleCachedGet(w, r)
}

func isFieldOfParam(v ssa.Value, typeName, field string, p ssa.Value) bool {
	base, ok := loadOfField(v, typeName, field)
	return ok && base == p
}

func ruleKeyStable(w *World, r *Report) {
	const rule = "R-KEYSTABLE"
	r.Rule(rule, "GetOrRegisterKey never changes an existing assignment and never gives a taken key; no other writer of VariableKeyMap in the package", 4)
	fn := w.MustFn(r, rule, "GetOrRegisterKey")
	if fn == nil || len(fn.Params) != 2 {
		return
	}
	cc, name := ssa.Value(fn.Params[0]), ssa.Value(fn.Params[1])
	fname := w.Name(fn)
	isKeyMap := func(v ssa.Value) bool { return isFieldOfParam(v, "Config", "VariableKeyMap", cc) }
	// the key set: a local map filled with every value of the key map
	var keySet *ssa.MakeMap
	EachInstr(fn, func(in ssa.Instruction) {
		mu, ok := in.(*ssa.MapUpdate)
		if !ok {
			return
		}
		mm, ok := mu.Map.(*ssa.MakeMap)
		if !ok {
			return
		}
		ex, ok := mu.Key.(*ssa.Extract)
		if !ok || ex.Index != 2 {
			return
		}
		nx, ok := ex.Tuple.(*ssa.Next)
		if !ok {
			return
		}
		rg, ok := nx.Iter.(*ssa.Range)
		if !ok || !isKeyMap(rg.X) {
			return
		}
		_, isStructSet := mm.Type().Underlying().(*types.Map).Elem().Underlying().(*types.Struct)
		if b, ok := constBool(mu.Value); (ok && b) || isStructSet {
			// unconditional in the loop body: the update's block is the body entered on every element
			hdr := nx.Block()
			if edgeDominates(hdr, 0, mu.Block()) && loopVisitsAll(hdr, mu.Block()) {
				keySet = mm
			}
		}
	})
	updates := 0
	EachInstr(fn, func(in ssa.Instruction) {
		mu, ok := in.(*ssa.MapUpdate)
		if !ok || !isKeyMap(mu.Map) {
			return
		}
		updates++
		pos := w.InstrPos(mu)
		what := fmt.Sprintf("VariableKeyMap[%s] = %s", describe(mu.Key), describe(mu.Value))
		if mu.Key != name {
			r.Fail(rule, pos, fname, what, "an entry other than the requested name is written")
			return
		}
		absent := false
		for _, f := range factsAt(mu.Block()) {
			ex, ok := f.Cond.(*ssa.Extract)
			if !ok || ex.Index != 1 || f.Truth {
				continue
			}
			lk, ok := ex.Tuple.(*ssa.Lookup)
			if ok && isKeyMap(lk.X) && lk.Index == name {
				absent = true
			}
		}
		if !absent {
			r.Fail(rule, pos, fname, what, "the assignment is not dominated by the name being absent: an existing key could be changed")
			return
		}
		// which key: a loop candidate guarded by the set, or len+1 after the exhausted loop
		if keySet != nil {
			free := false
			for _, f := range factsAt(mu.Block()) {
				lk, ok := setLookupOf(f.Cond)
				if ok && lk.X == ssa.Value(keySet) && lk.Index == mu.Value && !f.Truth {
					free = true
				}
			}
			if free {
				r.OK(rule, pos, fname, what, "name absent; the key is absent from the set of all assigned keys")
				return
			}
		}
		if ok, why := pigeonholeShape(fn, mu, keySet, isKeyMap); ok {
			r.OK(rule, pos, fname, what, "name absent; "+why)
			return
		}
		if kphi, isPhi := mu.Value.(*ssa.Phi); isPhi && keySet != nil && kphi.Block().Dominates(mu.Block()) && len(kphi.Edges) >= 2 {
			// one assignment after a join (`key := size+1; for … { if free { key = i; break } }`): each way the key
			// can have been chosen is judged on its own edge
			allOK := true
			var whys []string
			for i, e := range kphi.Edges {
				pred := kphi.Block().Preds[i]
				facts := append(factsAt(pred), factsAtEdgeTo(pred, kphi.Block())...)
				free := false
				for _, f := range facts {
					lk, ok := setLookupOf(f.Cond)
					if ok && lk.X == ssa.Value(keySet) && !f.Truth && (lk.Index == e || sameValueShape(lk.Index, e)) {
						free = true
					}
				}
				if free {
					whys = append(whys, "the key is absent from the set of all assigned keys")
					continue
				}
				okP, whyP := pigeonholeVal(fn, e, func(b *ssa.BasicBlock, exitEdge int) bool {
					return (pred == b && b.Succs[exitEdge] == kphi.Block()) || edgeDominates(b, exitEdge, pred)
				}, keySet, isKeyMap)
				if okP {
					whys = append(whys, whyP)
					continue
				}
				allOK = false
			}
			if allOK {
				for i, why := range whys {
					r.OK(rule, pos, fname, fmt.Sprintf("%s (choice %d of %d)", what, i+1, len(whys)), "name absent; "+why)
				}
				updates++
				return
			}
		}
		if ok, why := mergedScanShape(fn, mu, keySet, isKeyMap); ok {
			// one site that covers both outcomes of the scan
			r.OK(rule, pos, fname, what+" (scan stopped at a free candidate)", "name absent; "+why)
			r.OK(rule, pos, fname, what+" (scan exhausted)", "name absent; "+why)
			updates++
			return
		}
		r.Fail(rule, pos, fname, what, "the assigned key is not shown to be unused (no dominating absent-test in the set of all current keys, no exhausted 1..len scan)")
	})
	if updates < 2 {
		r.Unresolved(rule, "GetOrRegisterKey no longer has its two assignment sites")
	}
	if keySet == nil {
		r.Fail(rule, w.Pos(fn.Pos()), fname, "set of assigned keys", "no local set filled unconditionally from every value of VariableKeyMap")
	}
	// the present edge returns the existing key
	EachInstr(fn, func(in ssa.Instruction) {
		ret, ok := in.(*ssa.Return)
		if !ok {
			return
		}
		for _, f := range factsAt(ret.Block()) {
			ex, ok := f.Cond.(*ssa.Extract)
			if !ok || ex.Index != 1 || !f.Truth {
				continue
			}
			if lk, ok := ex.Tuple.(*ssa.Lookup); ok && isKeyMap(lk.X) && lk.Index == name {
				e0, ok0 := ret.Results[0].(*ssa.Extract)
				r.Check(ok0 && e0.Tuple == ex.Tuple && e0.Index == 0, rule, w.InstrPos(ret), fname, "return on the present edge", "the existing key", "a present name does not get its existing key back")
			}
		}
	})
	// other writers in the package
	for _, g := range w.Funcs {
		if g == fn {
			continue
		}
		EachInstr(g, func(in ssa.Instruction) {
			mu, ok := in.(*ssa.MapUpdate)
			if !ok {
				return
			}
			base, okf := loadOfField(mu.Map, "Config", "VariableKeyMap")
			if !okf {
				return
			}
			if nm(g) == "copyConfig" && len(g.Params) == 2 && base == ssa.Value(g.Params[0]) {
				r.OK(rule, w.InstrPos(mu), w.Name(g), "copy into dst.VariableKeyMap", "the element-wise copy into a fresh config (C08 R-COPYALL)")
				return
			}
			r.Fail(rule, w.InstrPos(mu), w.Name(g), effectText(Effect{Instr: mu}), "a second writer of VariableKeyMap: key assignments can be changed behind GetOrRegisterKey")
		})
	}
}

// pigeonholeShape: the update stores len+1 after a loop `for i := 1; i <= len; i++`
// that leaves through a guarded assignment at the first i not in the key set.
func pigeonholeShape(fn *ssa.Function, mu *ssa.MapUpdate, keySet *ssa.MakeMap, isKeyMap func(ssa.Value) bool) (bool, string) {
	return pigeonholeVal(fn, mu.Value, func(b *ssa.BasicBlock, exitEdge int) bool { return edgeDominates(b, exitEdge, mu.Block()) }, keySet, isKeyMap)
}

// pigeonholeVal: val is VariableKey(len(M)+1) and is used only where reached(header, exit edge) holds for the
// exhausted scan of 1..len(M) in which every candidate was found taken.
func pigeonholeVal(fn *ssa.Function, val ssa.Value, reached func(b *ssa.BasicBlock, exitEdge int) bool, keySet *ssa.MakeMap, isKeyMap func(ssa.Value) bool) (bool, string) {
	if keySet == nil {
		return false, ""
	}
	cv, ok := val.(*ssa.Convert)
	if !ok {
		return false, ""
	}
	add, ok := cv.X.(*ssa.BinOp)
	if !ok || add.Op != token.ADD {
		return false, ""
	}
	if c, ok := constInt(add.Y); !ok || c != 1 {
		return false, ""
	}
	size := add.X
	if x, ok := lenArg(size); !ok || !isKeyMap(x) {
		return false, ""
	}
	// loop header: phi i [1, i+1]; cond i <= size; exit edge dominates the update
	for _, b := range fn.Blocks {
		iff, ok := b.Instrs[len(b.Instrs)-1].(*ssa.If)
		if !ok {
			continue
		}
		cmp, ok := iff.Cond.(*ssa.BinOp)
		if !ok || !(cmp.Y == size || sameValueShape(cmp.Y, size)) {
			continue
		}
		// continue while i <= size (or: leave when i > size); exitEdge is the successor index that leaves the loop
		exitEdge := -1
		switch cmp.Op {
		case token.LEQ:
			exitEdge = 1
		case token.GTR:
			exitEdge = 0
		}
		if exitEdge < 0 {
			continue
		}
		phi, ok := cmp.X.(*ssa.Phi)
		if !ok || phi.Block() != b {
			continue
		}
		initOK, stepOK := false, false
		for _, e := range phi.Edges {
			if c, ok := constInt(e); ok && c == 1 {
				initOK = true
			} else if inc, ok := e.(*ssa.BinOp); ok && inc.Op == token.ADD && inc.X == ssa.Value(phi) {
				if c, ok := constInt(inc.Y); ok && c == 1 {
					stepOK = true
				}
			}
		}
		if !initOK || !stepOK || !reached(b, exitEdge) {
			continue
		}
		// the body continues only when keySet[VariableKey(i)] is true
		cont := true
		for _, p := range b.Preds {
			if !b.Dominates(p) {
				continue
			}
			taken := false
			for _, f := range append(factsAt(p), factsAtEdgeTo(p, b)...) {
				lk, ok := setLookupOf(f.Cond)
				if ok && lk.X == ssa.Value(keySet) && f.Truth {
					if c, ok := lk.Index.(*ssa.Convert); ok && c.X == ssa.Value(phi) {
						taken = true
					}
				}
			}
			if !taken {
				cont = false
			}
		}
		if cont {
			return true, "all of 1..len are taken when the scan is exhausted; with len names the taken keys are exactly 1..len (pigeonhole), so len+1 is free"
		}
	}
	return false, ""
}

// mergedScanShape: `next := 1; for next <= len(M) && keySet[next] { next++ }; M[name] = next` — one assignment
// for both outcomes of the scan. The candidate starts at 1 and advances by one only while it is at most len(M)
// and taken, so at the assignment either it is not in the key set, or it is len(M)+1 with all of 1..len(M) taken
// (pigeonhole: the len(M) names then hold exactly the keys 1..len(M), and len(M)+1 is free).
func mergedScanShape(fn *ssa.Function, mu *ssa.MapUpdate, keySet *ssa.MakeMap, isKeyMap func(ssa.Value) bool) (bool, string) {
	if keySet == nil {
		return false, ""
	}
	cv, ok := mu.Value.(*ssa.Convert)
	if !ok {
		return false, ""
	}
	phi, ok := cv.X.(*ssa.Phi)
	if !ok {
		return false, ""
	}
	hdr := phi.Block()
	if !hdr.Dominates(mu.Block()) || reachable(mu.Block(), hdr) {
		return false, ""
	}
	back := 0
	for i, e := range phi.Edges {
		p := hdr.Preds[i]
		if !hdr.Dominates(p) {
			if c, ok := constInt(e); !ok || c != 1 {
				return false, ""
			}
			continue
		}
		inc, ok := e.(*ssa.BinOp)
		if !ok || inc.Op != token.ADD || inc.X != ssa.Value(phi) {
			return false, ""
		}
		if c, ok := constInt(inc.Y); !ok || c != 1 {
			return false, ""
		}
		inRange, taken := false, false
		for _, f := range append(factsAt(p), factsAtEdgeTo(p, hdr)...) {
			if lk, ok := setLookupOf(f.Cond); ok && lk.X == ssa.Value(keySet) && f.Truth {
				if c, ok := lk.Index.(*ssa.Convert); ok && c.X == ssa.Value(phi) {
					taken = true
				}
			}
			if cmp, ok := f.Cond.(*ssa.BinOp); ok && cmp.X == ssa.Value(phi) {
				if x, okl := lenArg(cmp.Y); okl && isKeyMap(x) {
					if (cmp.Op == token.LEQ && f.Truth) || (cmp.Op == token.GTR && !f.Truth) {
						inRange = true
					}
				}
			}
		}
		if !inRange || !taken {
			return false, ""
		}
		back++
	}
	if back == 0 {
		return false, ""
	}
	// the assignment is reached only because the candidate is free or the scan is exhausted — on every way in
	exitOK := func(facts []Fact) bool {
		for _, f := range facts {
			if lk, ok := setLookupOf(f.Cond); ok && lk.X == ssa.Value(keySet) && !f.Truth {
				if c, ok := lk.Index.(*ssa.Convert); ok && c.X == ssa.Value(phi) {
					return true
				}
			}
			if cmp, ok := f.Cond.(*ssa.BinOp); ok && cmp.X == ssa.Value(phi) {
				if x, okl := lenArg(cmp.Y); okl && isKeyMap(x) {
					if (cmp.Op == token.LEQ && !f.Truth) || (cmp.Op == token.GTR && f.Truth) {
						return true
					}
				}
			}
		}
		return false
	}
	mb := mu.Block()
	reached := exitOK(factsAt(mb))
	if !reached && len(mb.Preds) > 1 {
		reached = true
		for _, p := range mb.Preds {
			if !exitOK(append(factsAt(p), factsAtEdgeTo(p, mb)...)) {
				reached = false
			}
		}
	}
	if !reached {
		return false, ""
	}
	return true, "the candidate starts at 1 and advances only while it is <= len and taken: at the assignment it is either absent from the set of all assigned keys, or len+1 with all of 1..len taken (pigeonhole)"
}

// ---- R-FETCHGATE --------------------------------------------------------------

func ruleFetchGate(w *World, r *Report) {
	const rule = "R-FETCHGATE"
	r.Rule(rule, "slice-backed fetcher only under minKey <= maxKey && 0 <= minKey && maxKey < K; varKeyRange is min/max over all keys; undefined-variable mode takes the map fetcher; the slice fetcher indexes only under int(key) < len(s)", 8)
	fn := w.MustFn(r, rule, "NewCtxFromVars")
	vkr := w.MustFn(r, rule, "varKeyRange")
	nsf := w.MustFn(r, rule, "NewSliceVarFetcher")
	if fn == nil || vkr == nil || nsf == nil {
		return
	}
	fname := w.Name(fn)
	// every Ctx handed out carries a fetcher: the value stored into Ctx.VariableFetcher is, on every way in, a
	// constructed fetcher and never the nil interface (a branch that forgets to assign leaves the zero value, and the
	// first Get of an evaluation dereferences it)
	EachInstr(fn, func(in ssa.Instruction) {
		st, ok := in.(*ssa.Store)
		if !ok {
			return
		}
		if tn, fld, _, okf := fieldOf(st.Addr); !okf || tn != "Ctx" || fld != "VariableFetcher" {
			return
		}
		nilWay := false
		seen := map[ssa.Value]bool{}
		var walk func(v ssa.Value)
		walk = func(v ssa.Value) {
			if seen[v] {
				return
			}
			seen[v] = true
			if isNilConst(v) {
				nilWay = true
				return
			}
			if phi, okp := v.(*ssa.Phi); okp {
				for _, e := range phi.Edges {
					walk(e)
				}
			}
		}
		walk(st.Val)
		r.Check(!nilWay, rule, w.InstrPos(st), fname, "Ctx.VariableFetcher = "+describe(st.Val), "a constructed fetcher on every path", "on some path the context is built with a nil fetcher: the first variable of an evaluation dereferences it")
	})
	n := 0
	bodies := sliceFetcherBodies(w)
	isBody := func(f *ssa.Function) bool {
		for _, b := range bodies {
			if b == f {
				return true
			}
		}
		return false
	}
	EachInstr(fn, func(in ssa.Instruction) {
		// a construction site: a call of a function that builds the slice-backed fetcher, or the make itself
		// when NewCtxFromVars builds it in place
		var c ssa.Instruction
		var cfgArg ssa.Value
		switch x := in.(type) {
		case *ssa.Call:
			callee := x.Call.StaticCallee()
			if callee == nil || (callee != nsf && !isBody(callee)) {
				return
			}
			if k := configParamIndex(callee); k >= 0 && k < len(x.Call.Args) {
				c, cfgArg = x, x.Call.Args[k]
			}
		case *ssa.MakeSlice:
			if isBody(fn) && isSliceFetcherMake(x) {
				if k := configParamIndex(fn); k >= 0 {
					c, cfgArg = x, fn.Params[k]
				}
			}
		}
		if c == nil {
			return
		}
		n++
		var lower, upper, nonEmpty bool
		var K int64 = -1
		for _, f := range factsAt(c.Block()) {
			bo, ok := f.Cond.(*ssa.BinOp)
			if !ok {
				continue
			}
			op := bo.Op
			x, y := bo.X, bo.Y
			if !f.Truth {
				neg := map[token.Token]token.Token{token.LSS: token.GEQ, token.GEQ: token.LSS, token.GTR: token.LEQ, token.LEQ: token.GTR}
				nop, ok := neg[op]
				if !ok {
					continue
				}
				op = nop
			}
			// normalise to x OP y with OP in {<=, <}
			switch op {
			case token.GEQ:
				x, y, op = y, x, token.LEQ
			case token.GTR:
				x, y, op = y, x, token.LSS
			}
			minOf := func(v ssa.Value) bool { return isRangeResult(v, vkr, 0, cfgArg) }
			maxOf := func(v ssa.Value) bool { return isRangeResult(v, vkr, 1, cfgArg) }
			switch {
			case minOf(x) && maxOf(y) && (op == token.LEQ || op == token.LSS):
				nonEmpty = true
			case minOf(y):
				if cst, ok := constInt(x); ok && ((op == token.LEQ && cst >= 0) || (op == token.LSS && cst >= -1)) {
					lower = true
				}
			case maxOf(x):
				if cst, ok := constInt(y); ok {
					upper = true
					K = cst
					if op == token.LEQ {
						K = cst + 1
					}
				}
			}
		}
		r.Check(lower && upper && nonEmpty, rule, w.InstrPos(c), fname, describe(c.(ssa.Value)),
			fmt.Sprintf("dominated by minKey <= maxKey, 0 <= minKey and maxKey < %d for varKeyRange of the same config", K),
			fmt.Sprintf("the slice-backed fetcher can be chosen for a key layout it cannot index (non-empty=%v lower-bound=%v upper-bound=%v): negative keys or the UndefinedVarKey marker would index out of range", nonEmpty, lower, upper))
	})
	if n == 0 {
		r.Unresolved(rule, "NewCtxFromVars no longer constructs the slice-backed fetcher")
	}
	// undefined-variable mode
	undefOK := false
	for _, ret := range allReturns(fn) {
		for _, f := range factsAt(ret.Block()) {
			lk, ok := setLookupOf(f.Cond)
			if !ok || !f.Truth {
				continue
			}
			if s, oks := constString(unwrapConv(lk.Index)); !oks || s != "allow_undefined_variable" {
				continue
			}
			// the Ctx returned holds a MapVarFetcher
			if al, ok := ret.Results[0].(*ssa.Alloc); ok {
				if t, okt := literalFieldStaticType(al, "VariableFetcher"); okt && typeNameOf(t) == "MapVarFetcher" {
					undefOK = true
				}
			}
		}
	}
	r.Check(undefOK, rule, w.Pos(fn.Pos()), fname, "AllowUndefinedVariable => map-backed fetcher", "undefined variables carry the UndefinedVarKey marker and are looked up by name", "with undefined variables allowed the fetcher is not the name-keyed map")

	// varKeyRange
	checkMinMax(w, r, rule, vkr)

	// slice fetcher methods
	for _, m := range []string{"(SliceVarFetcher).Get", "(SliceVarFetcher).Set", "(SliceVarFetcher).Cached"} {
		mf := w.MustFn(r, rule, m)
		if mf == nil {
			continue
		}
		recv, key := ssa.Value(mf.Params[0]), ssa.Value(mf.Params[1])
		idxs := 0
		EachInstr(mf, func(in ssa.Instruction) {
			ia, ok := in.(*ssa.IndexAddr)
			if !ok || ia.X != recv {
				return
			}
			idxs++
			guarded := false
			for _, f := range factsAt(ia.Block()) {
				bo, ok := f.Cond.(*ssa.BinOp)
				if !ok {
					continue
				}
				cv, okc := bo.X.(*ssa.Convert)
				if !okc || cv.X != key || !isLenOf(bo.Y, recv) {
					continue
				}
				if (bo.Op == token.GEQ && !f.Truth) || (bo.Op == token.LSS && f.Truth) {
					guarded = true
				}
			}
			r.Check(guarded && ia.Index == key, rule, w.InstrPos(ia), m, describe(ia), "indexed only under int(key) < len(s)", "the slice fetcher indexes without the upper-bound test")
		})
		if m == "(SliceVarFetcher).Cached" {
			// Cached answers true only under int(key) < len(s)
			good := true
			for _, ret := range allReturns(mf) {
				if b, ok := constBool(ret.Results[0]); ok && b {
					g := false
					for _, f := range factsAt(ret.Block()) {
						if bo, ok := f.Cond.(*ssa.BinOp); ok {
							if cv, okc := bo.X.(*ssa.Convert); okc && cv.X == key && isLenOf(bo.Y, recv) &&
								((bo.Op == token.GEQ && !f.Truth) || (bo.Op == token.LSS && f.Truth)) {
								g = true
							}
						}
					}
					if !g {
						good = false
					}
				}
			}
			r.Check(good, rule, w.Pos(mf.Pos()), m, "Cached == true", "only for keys inside the slice", "Cached claims availability for a key outside the slice: TryEval would then fetch it")
		}
	}
	// every function that builds the slice-backed fetcher allocates maxKey+1 slots for its own config
	if !isBody(nsf) {
		bodies = append(bodies, nsf)
	}
	for _, body := range bodies {
		allocOK := false
		k := configParamIndex(body)
		EachInstr(body, func(in ssa.Instruction) {
			ms, ok := in.(*ssa.MakeSlice)
			if !ok || k < 0 {
				return
			}
			v := ms.Len
			if cv, ok := v.(*ssa.Convert); ok {
				v = cv.X
			}
			if add, ok := v.(*ssa.BinOp); ok && add.Op == token.ADD {
				if c, ok := constInt(add.Y); ok && c == 1 && isRangeResult(add.X, vkr, 1, body.Params[k]) {
					allocOK = true
				}
			}
		})
		r.Check(allocOK, rule, w.Pos(body.Pos()), w.Name(body), "make([]Value, maxKey+1)", "one slot for every key up to the largest", "the slice fetcher is not sized maxKey+1 for the same config")
	}
}

// sliceFetcherBodies: the package functions that build a slice-backed fetcher in place — a make([]Value, …)
// whose result becomes a SliceVarFetcher. On the pinned tree that is NewSliceVarFetcher alone.
func sliceFetcherBodies(w *World) []*ssa.Function {
	var out []*ssa.Function
	for _, f := range w.Funcs {
		found := false
		EachInstr(f, func(in ssa.Instruction) {
			if ms, ok := in.(*ssa.MakeSlice); ok && isSliceFetcherMake(ms) {
				found = true
			}
		})
		if found {
			out = append(out, f)
		}
	}
	return out
}

func isSliceFetcherMake(ms *ssa.MakeSlice) bool {
	if typeNameOf(ms.Type()) == "SliceVarFetcher" {
		return true
	}
	for _, ref := range referrers(ms) {
		if ct, ok := ref.(*ssa.ChangeType); ok && typeNameOf(ct.Type()) == "SliceVarFetcher" {
			return true
		}
	}
	return false
}

// configParamIndex: the position of the *Config parameter of f, -1 if none.
func configParamIndex(f *ssa.Function) int {
	for i, p := range f.Params {
		if typeNameOf(deref(p.Type())) == "Config" {
			return i
		}
	}
	return -1
}

func isRangeResult(v ssa.Value, vkr *ssa.Function, idx int, cc ssa.Value) bool {
	ex, ok := v.(*ssa.Extract)
	if !ok || ex.Index != idx {
		return false
	}
	c, ok := ex.Tuple.(*ssa.Call)
	return ok && c.Call.StaticCallee() == vkr && len(c.Call.Args) == 1 && c.Call.Args[0] == cc
}

// checkMinMax: varKeyRange returns (min, max) over all values of cc.VariableKeyMap.
func checkMinMax(w *World, r *Report, rule string, fn *ssa.Function) {
	name := w.Name(fn)
	rets := allReturns(fn)
	if len(rets) != 1 || len(rets[0].Results) != 2 {
		r.Fail(rule, w.Pos(fn.Pos()), name, "varKeyRange", "unexpected shape")
		return
	}
	check := func(v ssa.Value, wantOp token.Token, initWant int64, label string) {
		phi, ok := v.(*ssa.Phi)
		good := ok
		if ok {
			// transitive phi inputs: the init constant, itself, or a ranged value under (value OP phi)
			seen := map[ssa.Value]bool{}
			var inputs []ssa.Value
			var visit func(p *ssa.Phi)
			visit = func(p *ssa.Phi) {
				if seen[p] {
					return
				}
				seen[p] = true
				for i, e := range p.Edges {
					if q, ok := e.(*ssa.Phi); ok {
						visit(q)
						continue
					}
					inputs = append(inputs, e)
					if c, ok := constInt(e); ok {
						if c != initWant {
							good = false
						}
						continue
					}
					// ranged value: must arrive under (e OP phi)
					ex, ok := e.(*ssa.Extract)
					if !ok || ex.Index != 2 {
						good = false
						continue
					}
					nx, ok := ex.Tuple.(*ssa.Next)
					if !ok {
						good = false
						continue
					}
					rg, ok := nx.Iter.(*ssa.Range)
					if !ok {
						good = false
						continue
					}
					if _, okf := loadOfField(rg.X, "Config", "VariableKeyMap"); !okf {
						good = false
					}
					pred := p.Block().Preds[i]
					under := false
					for _, f := range append(factsAt(pred), factsAtEdgeTo(pred, p.Block())...) {
						bo, ok := f.Cond.(*ssa.BinOp)
						if !ok || !f.Truth {
							continue
						}
						if x, y, okc := orientCmp(bo, wantOp); okc && x == e {
							if _, isPhi := y.(*ssa.Phi); isPhi {
								under = true
							}
						}
					}
					if !under {
						good = false
					}
				}
			}
			visit(phi)
			if len(inputs) < 2 {
				good = false
			}
		}
		r.Check(good, rule, w.Pos(fn.Pos()), name, label+" of all keys", "starts at the opposite extreme and takes a key exactly when it is "+wantOp.String()+" the running "+label, "varKeyRange does not compute the "+label+" over all keys: the fetcher gate sees a wrong range")
	}
	check(rets[0].Results[0], token.LSS, 32767, "min")
	check(rets[0].Results[1], token.GTR, -32768, "max")
}

// ---- R-UNIFY ------------------------------------------------------------------

func ruleUnify(w *World, r *Report) {
	const rule = "R-UNIFY"
	r.Rule(rule, "unifyType normalises every listed type to int64 / []int64 with the stated conversion; both fetcher constructors pass every bound value through it", 14)
	fn := w.MustFn(r, rule, "unifyType")
	if fn == nil {
		return
	}
	name := w.Name(fn)
	want := map[string]string{
		"int": "convert", "int8": "convert", "int16": "convert", "int32": "convert",
		"uint8": "convert", "uint16": "convert", "uint32": "convert", "uint64": "convert",
		"time.Time": "unix", "time.Duration": "div-second", "[]int": "slice", "[]int32": "slice",
	}
	got := map[string]string{}
	val := ssa.Value(fn.Params[0])
	EachInstr(fn, func(in ssa.Instruction) {
		ta, ok := in.(*ssa.TypeAssert)
		if !ok || ta.X != val || !ta.CommaOk {
			return
		}
		tname := types.TypeString(ta.AssertedType, nil)
		var v, okv ssa.Value
		for _, ref := range referrers(ta) {
			if ex, ok := ref.(*ssa.Extract); ok {
				if ex.Index == 0 {
					v = ex
				} else {
					okv = ex
				}
			}
		}
		if v == nil || okv == nil {
			return
		}
		// returns dominated by ok == true of this assertion
		for _, ret := range allReturns(fn) {
			dom := false
			for _, f := range factsAt(ret.Block()) {
				if f.Cond == okv && f.Truth {
					dom = true
				}
			}
			if !dom {
				continue
			}
			got[tname] = classifyUnify(ret.Results[0], v)
		}
	})
	var names []string
	for n := range want {
		names = append(names, n)
	}
	sort.Strings(names)
	for _, n := range names {
		r.Check(got[n] == want[n], rule, w.Pos(fn.Pos()), name, fmt.Sprintf("case %s: %s", n, got[n]), "normalised by "+want[n], fmt.Sprintf("want %s, found %q: values of type %s are not normalised as documented", want[n], got[n], n))
	}
	// constructors
	ctors := []string{"NewSliceVarFetcher", "NewMapVarFetcher", "ToValueMap"}
	for _, b := range sliceFetcherBodies(w) {
		if nm := w.Name(b); nm != "NewSliceVarFetcher" {
			ctors = append(ctors, nm)
		}
	}
	for _, c := range ctors {
		cf := w.MustFn(r, rule, c)
		if cf == nil {
			continue
		}
		stores, through := 0, 0
		EachInstr(cf, func(in ssa.Instruction) {
			var v ssa.Value
			switch x := in.(type) {
			case *ssa.Store:
				if _, ok := x.Addr.(*ssa.IndexAddr); ok && typeNameOf(x.Val.Type()) == "Value" {
					v = x.Val
				}
			case *ssa.MapUpdate:
				if typeNameOf(x.Value.Type()) == "Value" {
					v = x.Value
				}
			}
			if v == nil {
				return
			}
			stores++
			if call, ok := v.(*ssa.Call); ok && call.Call.StaticCallee() == fn {
				through++
			}
		})
		r.Check(stores > 0 && stores == through, rule, w.Pos(cf.Pos()), c, fmt.Sprintf("%d value store(s), %d through unifyType", stores, through), "every bound value is normalised", "a bound value is stored without normalisation: int and int64 bindings would then differ")
	}
}

func classifyUnify(res ssa.Value, v ssa.Value) string {
	x := unwrapIface(res)
	if bt, ok := x.Type().Underlying().(*types.Basic); ok && bt.Kind() == types.Int64 {
		switch y := x.(type) {
		case *ssa.Convert:
			if y.X == v {
				return "convert"
			}
		case *ssa.Call:
			if calleeFullName(&y.Call) == "(time.Time).Unix" && len(y.Call.Args) == 1 && y.Call.Args[0] == v {
				return "unix"
			}
		case *ssa.ChangeType:
			if bo, ok := y.X.(*ssa.BinOp); ok && bo.Op == token.QUO && bo.X == v {
				if c, ok := constInt(bo.Y); ok && c == 1000000000 {
					return "div-second"
				}
				return "div-other"
			}
		case *ssa.BinOp:
			if y.Op == token.QUO {
				if c, ok := constInt(y.Y); ok && c == 1000000000 {
					return "div-second"
				}
			}
		}
		return "?" + describe(x)
	}
	if sl, ok := x.Type().Underlying().(*types.Slice); ok {
		if bt, ok := sl.Elem().Underlying().(*types.Basic); ok && bt.Kind() == types.Int64 {
			ms, ok := x.(*ssa.MakeSlice)
			if !ok {
				// the same list built by appending: temp := make([]int64, 0, …); for _, iv := range v { temp = append(temp, int64(iv)) }
				if unifyAppendForm(x, v) {
					return "slice"
				}
				return "?slice"
			}
			if a, ok := lenArg(ms.Len); !ok || a != v {
				return "slice-wrong-len"
			}
			// element i from element i
			good := false
			for _, ref := range referrers(ms) {
				ia, ok := ref.(*ssa.IndexAddr)
				if !ok {
					continue
				}
				for _, ref2 := range referrers(ia) {
					st, ok := ref2.(*ssa.Store)
					if !ok || st.Addr != ssa.Value(ia) {
						continue
					}
					cv, ok := st.Val.(*ssa.Convert)
					if !ok {
						continue
					}
					addr, ok := isLoad(cv.X)
					if !ok {
						continue
					}
					src, ok := addr.(*ssa.IndexAddr)
					if ok && src.X == v && src.Index == ia.Index {
						if hdr, okh := rangeIndexHeader(ia.Index, v); okh {
							good = true
							// every element: the store happens on every iteration, and the list is handed on only
							// after the loop ran to its end
							for _, p := range hdr.Preds {
								if hdr.Dominates(p) && !st.Block().Dominates(p) {
									good = false
								}
							}
							for _, use := range referrers(ms) {
								if _, isIA := use.(*ssa.IndexAddr); isIA {
									continue
								}
								if c, isCall := use.(*ssa.Call); isCall {
									if _, isLen := lenArg(c); isLen {
										continue
									}
								}
								if !edgeDominates(hdr, 1, use.Block()) {
									good = false
								}
							}
						}
					}
				}
			}
			if good {
				return "slice"
			}
			return "slice-elements-mismatch"
		}
	}
	return "?" + strings.TrimSpace(describe(x))
}

// ---- R-VARNODE ----------------------------------------------------------------

func ruleVarNode(w *World, r *Report) {
	const rule = "R-VARNODE"
	r.Rule(rule, "variable nodes pair the token's text with VariableKeyMap[that text]; undefined variables carry UndefinedVarKey; fetchers look up by their own kind of key", 4)
	k := loadNodeKinds(w)
	undef, _ := w.ConstInt("UndefinedVarKey")
	for _, fname := range []string{"(*parser).parseVariable", "(*parser).parseUnknownVariable"} {
		fn := w.MustFn(r, rule, fname)
		if fn == nil {
			continue
		}
		found := false
		EachInstr(fn, func(in ssa.Instruction) {
			al, ok := in.(*ssa.Alloc)
			if !ok || typeNameOf(deref(al.Type())) != "node" {
				return
			}
			kc, okk := literalKind(al)
			if !okk || kc != k.variable {
				return
			}
			found = true
			var nameV, keyV ssa.Value
			for _, ref := range referrers(al) {
				fa, ok := ref.(*ssa.FieldAddr)
				if !ok {
					continue
				}
				for _, ref2 := range referrers(fa) {
					if st, ok := ref2.(*ssa.Store); ok && st.Addr == ssa.Value(fa) {
						switch fieldName(fa.X.Type(), fa.Field) {
						case "value":
							nameV = unwrapIface(st.Val)
						case "varKey":
							keyV = st.Val
						}
					}
				}
			}
			_, isTokVal := loadOfField(nameV, "token", "val")
			pos := w.InstrPos(al)
			if strings.Contains(fname, "Unknown") {
				c, okc := constInt(keyV)
				r.Check(isTokVal && okc && c == undef, rule, pos, fname, "variable node {value: token text, varKey: "+describe(keyV)+"}", "undefined variables carry the UndefinedVarKey marker and their own name", "an undefined variable does not carry the marker key (it could collide with a registered key)")
				return
			}
			good := false
			if ex, ok := keyV.(*ssa.Extract); ok && ex.Index == 0 {
				if lk, ok := ex.Tuple.(*ssa.Lookup); ok {
					_, okm := loadOfField(lk.X, "Config", "VariableKeyMap")
					_, okIdx := loadOfField(lk.Index, "token", "val")
					good = okm && okIdx && isTokVal && sameValueShape(lk.Index, nameV)
					// and under ok == true
					present := false
					for _, f := range factsAt(al.Block()) {
						if e1, ok := f.Cond.(*ssa.Extract); ok && e1.Tuple == ex.Tuple && e1.Index == 1 && f.Truth {
							present = true
						}
					}
					good = good && present
				}
			}
			r.Check(good, rule, pos, fname, "variable node {value: token text, varKey: "+describe(keyV)+"}", "the key registered under that very text, found present", "the node's key is not VariableKeyMap[its own name]: the slice-backed fetcher would read another variable")
		})
		if !found {
			r.Unresolved(rule, fname+" no longer builds a variable node literal")
		}
	}
	// fetchers: MapVarFetcher by name, SliceVarFetcher by key
	if fn := w.MustFn(r, rule, "(MapVarFetcher).Get"); fn != nil {
		good := false
		EachInstr(fn, func(in ssa.Instruction) {
			if lk, ok := in.(*ssa.Lookup); ok && lk.X == ssa.Value(fn.Params[0]) && lk.Index == ssa.Value(fn.Params[2]) {
				good = true
			}
		})
		r.Check(good, rule, w.Pos(fn.Pos()), w.Name(fn), "lookup s[strKey]", "the map-backed fetcher reads by name", "the map-backed fetcher does not read by the name it is given")
	}
	if fn := w.MustFn(r, rule, "(SliceVarFetcher).Get"); fn != nil {
		good := false
		for _, ret := range allReturns(fn) {
			if addr, ok := isLoad(ret.Results[0]); ok {
				if ia, ok := addr.(*ssa.IndexAddr); ok && ia.X == ssa.Value(fn.Params[0]) && ia.Index == ssa.Value(fn.Params[1]) {
					good = true
				}
			}
		}
		r.Check(good, rule, w.Pos(fn.Pos()), w.Name(fn), "returns s[varKey]", "the slice-backed fetcher reads by key", "the slice-backed fetcher does not return the slot of the key it is given")
	}
	// NewSliceVarFetcher stores vals[name] at VariableKeyMap[name]
	vnBodies := sliceFetcherBodies(w)
	if nsf := w.MustFn(r, rule, "NewSliceVarFetcher"); nsf != nil {
		has := false
		for _, b := range vnBodies {
			has = has || b == nsf
		}
		if !has {
			vnBodies = append(vnBodies, nsf)
		}
	}
	for _, fn := range vnBodies {
		good := false
		valsParam := ssa.Value(nil)
		for _, p := range fn.Params {
			if _, isMap := p.Type().Underlying().(*types.Map); isMap {
				valsParam = p
			}
		}
		EachInstr(fn, func(in ssa.Instruction) {
			st, ok := in.(*ssa.Store)
			if !ok {
				return
			}
			ia, ok := st.Addr.(*ssa.IndexAddr)
			if !ok {
				return
			}
			keyEx, ok := ia.Index.(*ssa.Extract)
			if !ok || keyEx.Index != 2 {
				return
			}
			nx, ok := keyEx.Tuple.(*ssa.Next)
			if !ok {
				return
			}
			rg, ok := nx.Iter.(*ssa.Range)
			if !ok {
				return
			}
			if _, okf := loadOfField(rg.X, "Config", "VariableKeyMap"); !okf {
				return
			}
			// value: unifyType(vals[name]) with name = the ranged key of the same iteration
			call, ok := st.Val.(*ssa.Call)
			if !ok || len(call.Call.Args) != 1 {
				return
			}
			ex, ok := unwrapConv(call.Call.Args[0]).(*ssa.Extract)
			if !ok || ex.Index != 0 {
				return
			}
			lk, ok := ex.Tuple.(*ssa.Lookup)
			if !ok || valsParam == nil || lk.X != valsParam {
				return
			}
			nameEx, ok := lk.Index.(*ssa.Extract)
			if ok && nameEx.Tuple == keyEx.Tuple && nameEx.Index == 1 {
				good = true
			}
		})
		r.Check(good, rule, w.Pos(fn.Pos()), w.Name(fn), "fetcher[VariableKeyMap[name]] = unifyType(vals[name])", "slot and value belong to the same name", "the slice-backed fetcher stores a value under another name's key")
	}
}

var c11Witnesses = []Witness{
	{Name: "unify-int32-list-conversion-leaves-early", Rule: "R-UNIFY", Edits: []Edit{
		{File: "variable.go", Old: "\tcase []int32:\n\t\ttemp := make([]int64, len(v))\n\t\tfor i, iv := range v {\n\t\t\ttemp[i] = int64(iv)\n\t\t}\n\t\treturn temp\n", New: "\tcase []int32:\n\t\ttemp := make([]int64, len(v))\n\t\tfor i, iv := range v {\n\t\t\tif i > 7 {\n\t\t\t\tbreak\n\t\t\t}\n\t\t\ttemp[i] = int64(iv)\n\t\t}\n\t\treturn temp\n"}}},
	{Name: "unify-int32-list-skips-negative-elements", Rule: "R-UNIFY", Edits: []Edit{
		{File: "variable.go", Old: "\tcase []int32:\n\t\ttemp := make([]int64, len(v))\n\t\tfor i, iv := range v {\n\t\t\ttemp[i] = int64(iv)\n\t\t}\n\t\treturn temp\n", New: "\tcase []int32:\n\t\ttemp := make([]int64, len(v))\n\t\tfor i, iv := range v {\n\t\t\tif iv < 0 {\n\t\t\t\tcontinue\n\t\t\t}\n\t\t\ttemp[i] = int64(iv)\n\t\t}\n\t\treturn temp\n"}}},
	{Name: "benign-key-default-then-break", Rule: "R-KEYSTABLE", Benign: true, Edits: []Edit{
		{File: "variable.go", Old: "\tfor i := 1; i <= size; i++ {\n\t\tkey := VariableKey(i)\n\t\tif !keySet[key] {\n\t\t\tcc.VariableKeyMap[name] = key\n\t\t\treturn key\n\t\t}\n\t}\n\tkey := VariableKey(size + 1)\n", New: "\tkey := VariableKey(size + 1)\n\tfor i := 1; i <= size; i++ {\n\t\tif !keySet[VariableKey(i)] {\n\t\t\tkey = VariableKey(i)\n\t\t\tbreak\n\t\t}\n\t}\n"}}},
	{Name: "key-default-then-break-takes-last-candidate", Rule: "R-KEYSTABLE", Edits: []Edit{
		{File: "variable.go", Old: "\tfor i := 1; i <= size; i++ {\n\t\tkey := VariableKey(i)\n\t\tif !keySet[key] {\n\t\t\tcc.VariableKeyMap[name] = key\n\t\t\treturn key\n\t\t}\n\t}\n\tkey := VariableKey(size + 1)\n", New: "\tkey := VariableKey(size + 1)\n\tfor i := 1; i <= size; i++ {\n\t\tif !keySet[VariableKey(i)] || i == size {\n\t\t\tkey = VariableKey(i)\n\t\t\tbreak\n\t\t}\n\t}\n"}}},
	{Name: "key-default-is-len-not-len-plus-one", Rule: "R-KEYSTABLE", Edits: []Edit{
		{File: "variable.go", Old: "\tfor i := 1; i <= size; i++ {\n\t\tkey := VariableKey(i)\n\t\tif !keySet[key] {\n\t\t\tcc.VariableKeyMap[name] = key\n\t\t\treturn key\n\t\t}\n\t}\n\tkey := VariableKey(size + 1)\n", New: "\tkey := VariableKey(size)\n\tfor i := 1; i <= size; i++ {\n\t\tif !keySet[VariableKey(i)] {\n\t\t\tkey = VariableKey(i)\n\t\t\tbreak\n\t\t}\n\t}\n"}}},
	{Name: "merged-key-scan-leaves-early", Rule: "R-KEYSTABLE", Edits: []Edit{
		{File: "variable.go", Old: "\tfor i := 1; i <= size; i++ {\n\t\tkey := VariableKey(i)\n\t\tif !keySet[key] {\n\t\t\tcc.VariableKeyMap[name] = key\n\t\t\treturn key\n\t\t}\n\t}\n\tkey := VariableKey(size + 1)\n", New: "\tnext := 1\n\tfor next <= size && keySet[VariableKey(next)] {\n\t\tif next == 3 {\n\t\t\tbreak\n\t\t}\n\t\tnext++\n\t}\n\tkey := VariableKey(next)\n"}}},
	{Name: "benign-key-scan-merged-into-one-assignment", Rule: "R-KEYSTABLE", Benign: true, Edits: []Edit{
		{File: "variable.go", Old: "\tfor i := 1; i <= size; i++ {\n\t\tkey := VariableKey(i)\n\t\tif !keySet[key] {\n\t\t\tcc.VariableKeyMap[name] = key\n\t\t\treturn key\n\t\t}\n\t}\n\tkey := VariableKey(size + 1)\n", New: "\tnext := 1\n\tfor next <= size && keySet[VariableKey(next)] {\n\t\tnext++\n\t}\n\tkey := VariableKey(next)\n"}}},
	{Name: "merged-key-scan-stops-one-short", Rule: "R-KEYSTABLE", Edits: []Edit{
		{File: "variable.go", Old: "\tfor i := 1; i <= size; i++ {\n\t\tkey := VariableKey(i)\n\t\tif !keySet[key] {\n\t\t\tcc.VariableKeyMap[name] = key\n\t\t\treturn key\n\t\t}\n\t}\n\tkey := VariableKey(size + 1)\n", New: "\tnext := 1\n\tfor next < size && keySet[VariableKey(next)] {\n\t\tnext++\n\t}\n\tkey := VariableKey(next)\n"}}},
	{Name: "merged-key-scan-ignores-taken-keys", Rule: "R-KEYSTABLE", Edits: []Edit{
		{File: "variable.go", Old: "\tfor i := 1; i <= size; i++ {\n\t\tkey := VariableKey(i)\n\t\tif !keySet[key] {\n\t\t\tcc.VariableKeyMap[name] = key\n\t\t\treturn key\n\t\t}\n\t}\n\tkey := VariableKey(size + 1)\n", New: "\tnext := 1\n\tfor next <= size && !keySet[VariableKey(next)] {\n\t\tnext++\n\t}\n\tkey := VariableKey(next)\n"}}},
	{Name: "existing-key-reassigned", Rule: "R-KEYSTABLE", Edits: []Edit{
		{File: "variable.go", Old: "	if key, exist := cc.VariableKeyMap[name]; exist {\n		return key\n	}\n	size := len(cc.VariableKeyMap)", New: "	if key, exist := cc.VariableKeyMap[name]; exist && key > 0 {\n		return key\n	}\n	size := len(cc.VariableKeyMap)"}}},
	{Name: "first-free-scan-ignores-set", Rule: "R-KEYSTABLE", Edits: []Edit{
		{File: "variable.go", Old: "		if !keySet[key] {\n			cc.VariableKeyMap[name] = key\n			return key\n		}", New: "		if !keySet[key] || i == size {\n			cc.VariableKeyMap[name] = key\n			return key\n		}"}}},
	{Name: "keyset-skips-negative-keys", Rule: "R-KEYSTABLE", Edits: []Edit{
		{File: "variable.go", Old: "	for _, key := range cc.VariableKeyMap {\n		keySet[key] = true\n	}", New: "	for _, key := range cc.VariableKeyMap {\n		if key%2 == 0 || key < 100 {\n			keySet[key] = true\n		}\n	}"}}},
	{Name: "register-operator-also-registers-key", Rule: "R-KEYSTABLE", Edits: []Edit{
		{File: "operator.go", Old: "	cc.OperatorMap[name] = op\n	return nil", New: "	cc.OperatorMap[name] = op\n	cc.VariableKeyMap[name] = UndefinedVarKey\n	return nil"}}},
	{Name: "slice-fetcher-lower-bound-dropped", Rule: "R-FETCHGATE", Edits: []Edit{
		{File: "variable.go", Old: "	if minKey <= maxKey && 0 <= minKey && maxKey < 256 {", New: "	if minKey <= maxKey && maxKey < 256 {"}}},
	{Name: "slice-fetcher-get-off-by-one", Rule: "R-FETCHGATE", Edits: []Edit{
		{File: "variable.go", Old: "func (s SliceVarFetcher) Get(key VariableKey, _ string) (Value, error) {\n	if key < 0 || int(key) >= len(s) {", New: "func (s SliceVarFetcher) Get(key VariableKey, _ string) (Value, error) {\n	if key < 0 || int(key) > len(s) {"}}},
	{Name: "varkeyrange-max-from-last", Rule: "R-FETCHGATE", Edits: []Edit{
		{File: "variable.go", Old: "		if key > max {\n			max = key\n		}", New: "		if key > max || key > min {\n			max = key\n		}"}}},
	{Name: "uint16-case-deleted", Rule: "R-UNIFY", Edits: []Edit{
		{File: "variable.go", Old: "	case uint16:\n		return int64(v)\n", New: ""}}},
	{Name: "duration-in-milliseconds", Rule: "R-UNIFY", Edits: []Edit{
		{File: "variable.go", Old: "		return int64(v / time.Second)", New: "		return int64(v / time.Millisecond)"}}},
	{Name: "map-fetcher-skips-normalisation", Rule: "R-UNIFY", Edits: []Edit{
		{File: "variable.go", Old: "	for name, val := range vals {\n		s[name] = unifyType(val)\n	}", New: "	for name, val := range vals {\n		s[name] = val\n	}"}}},
	{Name: "variable-node-key-of-other-name", Rule: "R-VARNODE", Edits: []Edit{
		{File: "parser.go", Old: "	key, ok := p.conf.VariableKeyMap[t.val]\n	if !ok {\n		return nil, nil\n	}", New: "	key, ok := p.conf.VariableKeyMap[strings.ToLower(t.val)]\n	if !ok {\n		return nil, nil\n	}"}}},
	{Name: "unknown-variable-key-zero", Rule: "R-VARNODE", Edits: []Edit{
		{File: "parser.go", Old: "			varKey: UndefinedVarKey,", New: "			varKey: 0,"}}},
	{Name: "benign-key-scan-renamed", Benign: true, Edits: []Edit{
		{File: "variable.go", Old: "	for i := 1; i <= size; i++ {\n		key := VariableKey(i)\n		if !keySet[key] {\n			cc.VariableKeyMap[name] = key\n			return key\n		}\n	}", New: "	for cand := 1; cand <= size; cand++ {\n		k := VariableKey(cand)\n		if taken := keySet[k]; taken {\n			continue\n		}\n		cc.VariableKeyMap[name] = k\n		return k\n	}"}}},
	{Name: "benign-fetch-gate-reordered", Benign: true, Edits: []Edit{
		{File: "variable.go", Old: "	if minKey <= maxKey && 0 <= minKey && maxKey < 256 {", New: "	if maxKey <= 255 && minKey >= 0 && maxKey >= minKey {"}}},
}


// setLookupOf: the membership test behind a branch condition — `set[k]` on a bool-valued set, or the second result of
// `_, ok := set[k]`.
func setLookupOf(v ssa.Value) (*ssa.Lookup, bool) {
	switch x := v.(type) {
	case *ssa.Lookup:
		return x, !x.CommaOk
	case *ssa.Extract:
		if lk, ok := x.Tuple.(*ssa.Lookup); ok && x.Index == 1 && lk.CommaOk {
			return lk, true
		}
	}
	return nil, false
}


// unifyAppendForm: x is the loop-carried list of a range loop over v that starts empty and, on every iteration, appends
// exactly the conversion of the element at the range index; x is read only over the exit edge of that loop.
func unifyAppendForm(x, v ssa.Value) bool {
	phi, ok := x.(*ssa.Phi)
	if !ok || len(phi.Edges) != 2 {
		return false
	}
	hdr := phi.Block()
	var base, step ssa.Value
	for i, e := range phi.Edges {
		if hdr.Dominates(hdr.Preds[i]) {
			step = e
		} else {
			base = e
		}
	}
	ms, ok := base.(*ssa.MakeSlice)
	if !ok {
		return false
	}
	if c, okc := constInt(ms.Len); !okc || c != 0 {
		return false
	}
	app, ok := isAppendCall(step)
	if !ok || app.Call.Args[0] != ssa.Value(phi) || len(app.Call.Args) != 2 {
		return false
	}
	// the appended variadic slice holds one element: int64(v[rangeindex])
	sl, ok := app.Call.Args[1].(*ssa.Slice)
	if !ok {
		return false
	}
	arr, ok := sl.X.(*ssa.Alloc)
	if !ok {
		return false
	}
	at, ok := deref(arr.Type()).Underlying().(*types.Array)
	if !ok || at.Len() != 1 {
		return false
	}
	okElem := false
	for _, ref := range referrers(arr) {
		ia, ok := ref.(*ssa.IndexAddr)
		if !ok {
			continue
		}
		for _, ref2 := range referrers(ia) {
			st, ok := ref2.(*ssa.Store)
			if !ok || st.Addr != ssa.Value(ia) {
				continue
			}
			cv, ok := st.Val.(*ssa.Convert)
			if !ok {
				return false
			}
			addr, ok := isLoad(cv.X)
			if !ok {
				return false
			}
			src, ok := addr.(*ssa.IndexAddr)
			if !ok || src.X != v {
				return false
			}
			h2, okh := rangeIndexHeader(src.Index, v)
			if !okh || h2 != hdr {
				return false
			}
			okElem = true
		}
	}
	if !okElem {
		return false
	}
	// on every iteration, and nothing leaves the loop early
	for _, p := range hdr.Preds {
		if hdr.Dominates(p) && !app.Block().Dominates(p) {
			return false
		}
	}
	for _, use := range referrers(phi) {
		if use == ssa.Instruction(app) {
			continue
		}
		if !edgeDominates(hdr, 1, use.Block()) {
			return false
		}
	}
	return true
}
