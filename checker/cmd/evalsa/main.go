// evalsa: repository-specific static analysis deciding structural clauses of
// the properties in /verif/properties.jsonl for github.com/onheap/eval.
//
// Usage:
//
//	evalsa -prop C07 -tier quick|thorough [-repo /repo] [-verif /verif]
//	evalsa -selftest            run every witness mutant / benign variant
//	evalsa -explain <replay>    print a recorded violation with source excerpt
//	evalsa -dump <func>         print the SSA form of a function (debugging)
package main

import (
	"encoding/json"
	"flag"
	"fmt"
	"os"
	"path/filepath"
	"runtime"
	"runtime/debug"
	"sort"
	"strconv"
	"strings"
)

// Property is the set of rules that decide one property.
type Property struct {
	ID          string
	Level       string
	Explanation string
	Assumptions []string
	Trusted     []string
	Run         func(w *World, r *Report)
	Witnesses   []Witness
}

var registry = map[string]*Property{}

func register(p *Property) { registry[p.ID] = p }

var commonTrusted = []string{
	"Go type checker (go/types) and go/packages loading with the repository's own build configuration",
	"golang.org/x/tools v0.29.0 go/ssa construction, dominator tree and VTA call graph (over-approximation of dynamic calls, seeded by CHA)",
	"the evalsa rules themselves (validated both ways by witness mutants and benign variants in the thorough tier and in setup)",
}

var commonAssumptions = []string{
	"A1 callbacks (user Operators, user VariableFetchers) are well-behaved, as the properties state; built-in operators are analysed, not trusted",
	"A2 no unsafe/cgo/linkname in the package and reflection only for inspection (checked on every run)",
	"A6 scope: the non-test files of package github.com/onheap/eval in /repo's working tree",
}

func main() {
	var (
		prop     = flag.String("prop", "", "property id (C01..C20)")
		tier     = flag.String("tier", "quick", "quick or thorough")
		repo     = flag.String("repo", "/repo", "repository root")
		verif    = flag.String("verif", "/verif", "verification directory (evidence, known findings)")
		selftest = flag.Bool("selftest", false, "run all witness mutants and benign variants")
		explain  = flag.String("explain", "", "replay file to explain")
		dump     = flag.String("dump", "", "print SSA of the named function")
		genfp    = flag.Bool("genfingerprints", false, "print the structural fingerprints of the tree's functions (reference for rename resolution)")
		genprot  = flag.Bool("genprotected", false, "print the list of functions of the tree (reference names never inlined)")
		inl      = flag.Bool("inline", false, "with -dump/-list: use the helper-inlined program")
		list     = flag.Bool("list", false, "list functions")
		only     = flag.String("only", "", "selftest: only witnesses whose name contains this")
	)
	flag.Parse()
	debug.SetGCPercent(50)

	if v := os.Getenv("VERIF_TIER"); v != "" && !flagSet("tier") {
		*tier = v
	}
	seed := int64(0)
	if v := os.Getenv("VERIF_SEED"); v != "" {
		if n, err := strconv.ParseInt(v, 10, 64); err == nil {
			seed = n
		}
	}

	if *explain != "" {
		os.Exit(explainReplay(*explain, *repo))
	}

	if *genprot {
		os.Exit(genProtected(*repo))
	}
	if *genfp {
		os.Exit(genFingerprints(*repo))
	}
	if *dump != "" || *list {
		w, err := Load(LoadConfig{Dir: *repo, Inline: *inl})
		if err != nil {
			fmt.Fprintln(os.Stderr, err)
			os.Exit(2)
		}
		if *inl {
			fmt.Fprintln(os.Stderr, "inlined:", w.InlineDescr)
		}
		if *list {
			for _, fn := range w.Funcs {
				fmt.Println(w.Name(fn), w.Pos(fn.Pos()))
			}
			return
		}
		fn := w.Fn(*dump)
		if fn == nil {
			fmt.Fprintln(os.Stderr, "no such function; use -list")
			os.Exit(2)
		}
		fn.WriteTo(os.Stdout)
		if os.Getenv("EVALSA_BOUNDS") != "" {
			newBoundsCtx(w).analyse(fn).dump()
		}
		return
	}

	known := LoadKnownFindings(filepath.Join(*verif, "KNOWN_FINDINGS.txt"))

	if *selftest {
		os.Exit(runSelfTest(*repo, *verif, *only))
	}

	p := registry[*prop]
	if p == nil {
		var ids []string
		for id := range registry {
			ids = append(ids, id)
		}
		sort.Strings(ids)
		fmt.Fprintf(os.Stderr, "unknown property %q; available: %s\n", *prop, strings.Join(ids, " "))
		os.Exit(2)
	}
	if *tier != "quick" && *tier != "thorough" {
		fmt.Fprintln(os.Stderr, "tier must be quick or thorough")
		os.Exit(2)
	}

	checkerCmd := fmt.Sprintf("bin/evalsa -prop %s -tier %s", p.ID, *tier)
	r := NewReport(p.ID, *tier, p.Level, known)
	r.Explanation = p.Explanation
	r.Assumptions = append(append([]string{}, commonAssumptions...), p.Assumptions...)
	r.Trusted = append(append([]string{}, commonTrusted...), p.Trusted...)

	w, err := Load(LoadConfig{Dir: *repo})
	if err != nil {
		fmt.Fprintf(os.Stderr, "NO VERDICT property=%s: the tree under %s could not be analysed: %v\n", p.ID, *repo, err)
		os.Exit(2)
	}
	analysed := map[string]interface{}{
		"repository":         *repo,
		"files":              w.Files,
		"package_functions":  len(w.Funcs),
		"configurations":     []string{"default"},
		"renamed_functions":  w.Renamed,
		"ssa_normalisations": fmt.Sprintf("%d join-and-return / constant-branch blocks folded back into their predecessors (splitret.go), each function re-checked by go/ssa's sanity checker", w.SplitReturns),
	}
	r.Extra["analysed"] = analysed
	runGuarded(p, w, r, "")
	if r.failing() {
		// fallback: the same rules on the program with new helpers inlined at source level (inline.go)
		if wi, ierr := Load(LoadConfig{Dir: *repo, Inline: true}); ierr == nil {
			ri := NewReport(p.ID, *tier, p.Level, known)
			ri.Explanation, ri.Assumptions, ri.Trusted = r.Explanation, r.Assumptions, r.Trusted
			ri.Extra["analysed"] = analysed
			runGuarded(p, wi, ri, "")
			if !ri.failing() {
				ri.Note("the rules did not all recognise the program as written (%d failing obligation(s)); they were re-applied to a semantically equal program in which helpers that do not exist in the reference tree are inlined at source level (%s), and all hold there", r.countFailing(), wi.InlineDescr)
				analysed["helpers_inlined"] = wi.InlineDescr
				r, w = ri, wi
			} else if os.Getenv("EVALSA_DEBUG") != "" {
				for _, id := range ri.ruleOrder {
					if st := ri.rules[id]; st.Instances < st.Floor {
						fmt.Fprintf(os.Stderr, "inlined run still fails: %s has %d instance(s), floor %d\n", id, st.Instances, st.Floor)
					}
				}
				for _, o := range ri.Obls {
					if o.Verdict == Violated {
						fmt.Fprintf(os.Stderr, "inlined run still fails: %s %s %s: %s -- %s\n", o.Rule, o.Pos, o.Func, o.What, o.Why)
					}
				}
			}
		}
	}

	if *tier == "thorough" {
		inl := w.InlineDescr != "" // the verdict comes from the helper-inlined form: compare like with like
		configs := []LoadConfig{
			{Dir: *repo, GOARCH: "386", Inline: inl},
			{Dir: *repo, Tags: "verif", Inline: inl},
		}
		names := []string{"default"}
		for _, c := range configs {
			label := "GOARCH=" + c.GOARCH
			if c.Tags != "" {
				label = "tags=" + c.Tags
			}
			names = append(names, label)
			w2, err := Load(c)
			if err != nil {
				r.Unresolved("CONFIG", "configuration "+label+" does not load: "+err.Error())
				continue
			}
			sub := NewReport(p.ID, *tier, p.Level, known)
			sub.quiet = true
			runGuarded(p, w2, sub, label)
			// verdict equality: same multiset of (key, verdict)
			diff := diffVerdicts(r, sub)
			r.Rule("CONFIG", "the verdicts do not depend on the build configuration (GOARCH=386, -tags verif)", 2)
			if len(diff) == 0 {
				r.OK("CONFIG", "-", "-", "configuration "+label, fmt.Sprintf("%d obligations, identical verdicts, %d files", len(sub.Obls), len(w2.Files)))
			} else {
				for _, d := range diff {
					r.Fail("CONFIG", "-", "-", "configuration "+label+": "+d, "verdict differs from the default configuration")
				}
			}
			w2 = nil
			runtime.GC()
		}
		analysed["configurations"] = names
		w = nil
		runtime.GC()
		r.witnesses = runWitnesses(p, *repo, known, "")
	}
	os.Exit(r.Finish(*verif, seed, checkerCmd))
}

func flagSet(name string) bool {
	found := false
	flag.Visit(func(f *flag.Flag) {
		if f.Name == name {
			found = true
		}
	})
	return found
}

// runGuarded runs the property's rules; an analyzer panic is a failed check,
// never a pass.
func runGuarded(p *Property, w *World, r *Report, config string) {
	defer func() {
		if x := recover(); x != nil {
			r.Unresolved("PANIC", fmt.Sprintf("analyzer panic: %v\n%s", x, firstLines(string(debug.Stack()), 14)))
		}
	}()
	before := len(r.Obls)
	p.Run(w, r)
	checkAssumptionA2(w, r)
	if config != "" {
		for i := before; i < len(r.Obls); i++ {
			r.Obls[i].Config = config
		}
	}
}

func firstLines(s string, n int) string {
	lines := strings.Split(s, "\n")
	if len(lines) > n {
		lines = lines[:n]
	}
	return strings.Join(lines, "\n")
}

func diffVerdicts(a, b *Report) []string {
	count := func(r *Report) map[string]int {
		m := map[string]int{}
		for _, o := range r.Obls {
			if o.Rule == "CONFIG" {
				continue
			}
			m[o.Key+" => "+string(o.Verdict)]++
		}
		return m
	}
	ma, mb := count(a), count(b)
	var out []string
	for k, n := range ma {
		if mb[k] != n {
			out = append(out, fmt.Sprintf("%s (default %d, here %d)", k, n, mb[k]))
		}
	}
	for k, n := range mb {
		if _, ok := ma[k]; !ok {
			out = append(out, fmt.Sprintf("%s (default 0, here %d)", k, n))
		}
	}
	sort.Strings(out)
	if len(out) > 10 {
		out = out[:10]
	}
	return out
}

func explainReplay(path, repo string) int {
	data, err := os.ReadFile(path)
	if err != nil {
		fmt.Fprintln(os.Stderr, err)
		return 2
	}
	var rp struct {
		Property   string     `json:"property"`
		Obligation Obligation `json:"obligation"`
	}
	if err := json.Unmarshal(data, &rp); err != nil {
		fmt.Fprintln(os.Stderr, err)
		return 2
	}
	o := rp.Obligation
	fmt.Printf("property %s, rule %s\n  at %s in %s\n  construct: %s\n  verdict: %s\n  reason: %s\n", rp.Property, o.Rule, o.Pos, o.Func, o.What, o.Verdict, o.Why)
	parts := strings.Split(strings.TrimSuffix(o.Pos, "~"), ":")
	if len(parts) == 2 {
		if line, err := strconv.Atoi(parts[1]); err == nil {
			if src, err := os.ReadFile(filepath.Join(repo, parts[0])); err == nil {
				lines := strings.Split(string(src), "\n")
				for i := line - 4; i < line+3; i++ {
					if i >= 0 && i < len(lines) {
						mark := "  "
						if i == line-1 {
							mark = "=>"
						}
						fmt.Printf("%s %4d  %s\n", mark, i+1, lines[i])
					}
				}
			}
		}
	}
	fmt.Printf("re-run: bin/evalsa -prop %s -tier quick\n", rp.Property)
	return 0
}
