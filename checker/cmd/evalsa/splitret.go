package main

// Return splitting (tail duplication of pure join-and-return blocks).
//
// `res = X; …; return res` and `return X` are the same program, but go/ssa gives the first a join block that
// consists of phis and one Return, so a rule that reads "what is returned under which branch facts" sees a
// single return of a phi with no facts. After the SSA build every such block is folded back into its
// predecessors: a predecessor that ends in an unconditional jump to the join gets its own Return, with each phi
// replaced by the value it has on that edge. Control flow, values and effects are unchanged (the join block
// contains nothing but phis and the Return; the phis are used by nothing else). The same shape is what the
// source-level inliner (inline.go) produces for `x, err := helper(…)`, so both refactorings are normalised here.

import (
	"go/token"
	"io"
	"reflect"
	"unsafe"

	"golang.org/x/tools/go/ssa"
)

//go:linkname ssaBuildDomTree golang.org/x/tools/go/ssa.buildDomTree
func ssaBuildDomTree(f *ssa.Function)

func setUnexported(field reflect.Value, val interface{}) {
	reflect.NewAt(field.Type(), unsafe.Pointer(field.UnsafeAddr())).Elem().Set(reflect.ValueOf(val))
}

func newReturn(results []ssa.Value, b *ssa.BasicBlock, pos token.Pos) *ssa.Return {
	r := &ssa.Return{Results: results}
	v := reflect.ValueOf(r).Elem()
	setUnexported(v.FieldByName("anInstruction").FieldByName("block"), b)
	setUnexported(v.FieldByName("pos"), pos)
	return r
}

func removeOneReferrer(v ssa.Value, in ssa.Instruction) {
	refs := v.Referrers()
	if refs == nil {
		return
	}
	for i, r := range *refs {
		if r == in {
			*refs = append((*refs)[:i:i], (*refs)[i+1:]...)
			return
		}
	}
}

func addReferrer(v ssa.Value, in ssa.Instruction) {
	if refs := v.Referrers(); refs != nil {
		*refs = append(*refs, in)
	}
}

//go:linkname ssaNumberRegisters golang.org/x/tools/go/ssa.numberRegisters
func ssaNumberRegisters(f *ssa.Function)

// go/ssa's own well-formedness checker (referrers, phi edge counts, dominance of operands, block structure): run
// on every function these normalisations touched, so that a mistake in them cannot silently distort a verdict.
//
//go:linkname ssaSanityCheck golang.org/x/tools/go/ssa.sanityCheck
func ssaSanityCheck(fn *ssa.Function, reporter io.Writer) bool

// duplicable: a value computation without effects that may sit between the phis and the Return of a join block
// (boxing the result into an interface, a conversion, an arithmetic or boolean operator).
func duplicable(in ssa.Instruction) bool {
	switch x := in.(type) {
	case *ssa.MakeInterface, *ssa.ChangeType, *ssa.Convert, *ssa.ChangeInterface, *ssa.BinOp:
		return true
	case *ssa.UnOp:
		return x.Op != token.MUL && x.Op != token.ARROW
	}
	return false
}

// cloneValueInstr copies a duplicable instruction into block b with its operands renamed by subst.
func cloneValueInstr(in ssa.Instruction, b *ssa.BasicBlock, subst map[ssa.Value]ssa.Value) ssa.Instruction {
	rv := reflect.ValueOf(in).Elem()
	nv := reflect.New(rv.Type())
	nv.Elem().Set(rv)
	reg := nv.Elem().FieldByName("register")
	setUnexported(reg.FieldByName("anInstruction").FieldByName("block"), b)
	setUnexported(reg.FieldByName("referrers"), []ssa.Instruction(nil))
	ni := nv.Interface().(ssa.Instruction)
	for _, op := range ni.Operands(nil) {
		if op == nil || *op == nil {
			continue
		}
		if m, ok := subst[*op]; ok {
			*op = m
		}
		addReferrer(*op, ni)
	}
	return ni
}

// splitReturns applies the transformation to fn; it returns the number of returns created.
func splitReturns(fn *ssa.Function) int {
	created := 0
	for round := 0; round < 8; round++ {
		changed := false
		for _, b := range fn.Blocks {
			if b == nil || len(b.Preds) < 2 || len(b.Instrs) < 2 {
				continue
			}
			n := len(b.Instrs)
			ret, ok := b.Instrs[n-1].(*ssa.Return)
			if !ok {
				continue
			}
			phis := map[*ssa.Phi]bool{}
			var phiList []*ssa.Phi
			var mids []ssa.Instruction
			pure := true
			for _, in := range b.Instrs[:n-1] {
				if p, isPhi := in.(*ssa.Phi); isPhi && len(mids) == 0 {
					if p.Comment == "&&" || p.Comment == "||" {
						pure = false // the value of a short-circuit expression, not a join of assignments
						break
					}
					phis[p] = true
					phiList = append(phiList, p)
				} else if duplicable(in) {
					mids = append(mids, in)
				} else {
					pure = false
					break
				}
				// used only inside this block
				if refs := in.(ssa.Value).Referrers(); refs != nil {
					for _, r := range *refs {
						if r.Block() != b {
							pure = false
						}
						if _, isPhi := r.(*ssa.Phi); isPhi {
							pure = false
						}
					}
				}
			}
			if !pure || len(phis) == 0 {
				continue
			}
			for i := len(b.Preds) - 1; i >= 0; i-- {
				p := b.Preds[i]
				if p == b || len(p.Instrs) == 0 || len(p.Succs) != 1 {
					continue
				}
				if _, isJump := p.Instrs[len(p.Instrs)-1].(*ssa.Jump); !isJump {
					continue
				}
				subst := map[ssa.Value]ssa.Value{}
				for _, ph := range phiList {
					subst[ph] = ph.Edges[i]
				}
				tail := p.Instrs[:len(p.Instrs)-1]
				for _, m := range mids {
					c := cloneValueInstr(m, p, subst)
					subst[m.(ssa.Value)] = c.(ssa.Value)
					tail = append(tail, c)
				}
				results := make([]ssa.Value, len(ret.Results))
				for k, rv := range ret.Results {
					if m, okm := subst[rv]; okm {
						results[k] = m
					} else {
						results[k] = rv
					}
				}
				nr := newReturn(results, p, ret.Pos())
				p.Instrs = append(tail, nr)
				p.Succs = nil
				for _, v := range results {
					addReferrer(v, nr)
				}
				b.Preds = append(b.Preds[:i:i], b.Preds[i+1:]...)
				for _, ph := range phiList {
					removeOneReferrer(ph.Edges[i], ph)
					ph.Edges = append(ph.Edges[:i:i], ph.Edges[i+1:]...)
				}
				created++
				changed = true
			}
			switch len(b.Preds) {
			case 0:
				for _, in := range b.Instrs {
					for _, op := range in.Operands(nil) {
						if op != nil && *op != nil {
							removeOneReferrer(*op, in)
						}
					}
				}
				fn.Blocks[b.Index] = nil
			case 1:
				// single-edge phis: their users take the edge values directly
				for _, ph := range phiList {
					e := ph.Edges[0]
					for _, r := range *ph.Referrers() {
						for _, op := range r.Operands(nil) {
							if op != nil && *op == ssa.Value(ph) {
								*op = e
								addReferrer(e, r)
							}
						}
					}
					removeOneReferrer(e, ph)
				}
				b.Instrs = b.Instrs[len(phiList):]
			}
		}
		if !changed {
			break
		}
		j := 0
		for _, b := range fn.Blocks {
			if b != nil {
				b.Index = j
				fn.Blocks[j] = b
				j++
			}
		}
		fn.Blocks = fn.Blocks[:j]
		ssaBuildDomTree(fn)
		ssaNumberRegisters(fn)
	}
	return created
}

// threadConstBranches: jump threading over a block that only joins a boolean and branches on it —
// `found = true … found = false … if found {` (also what the source-level inliner leaves for `if helper(…) {`).
// A predecessor that supplies a constant goes straight to the branch target that constant selects. The join
// block holds nothing but the phi and the If, and the phi has no other user, so nothing is skipped or repeated.
func threadConstBranches(fn *ssa.Function) int {
	threaded := 0
	for round := 0; round < 8; round++ {
		changed := false
		for _, b := range fn.Blocks {
			if b == nil || len(b.Instrs) != 2 || len(b.Preds) < 2 || len(b.Succs) != 2 || b.Succs[0] == b.Succs[1] {
				continue
			}
			phi, ok := b.Instrs[0].(*ssa.Phi)
			if !ok {
				continue
			}
			iff, ok := b.Instrs[1].(*ssa.If)
			if !ok || iff.Cond != ssa.Value(phi) || len(*phi.Referrers()) != 1 {
				continue
			}
			if b.Succs[0] == b || b.Succs[1] == b {
				continue
			}
			for i := len(b.Preds) - 1; i >= 0; i-- {
				c, isConst := phi.Edges[i].(*ssa.Const)
				if !isConst || c.Value == nil {
					continue
				}
				p := b.Preds[i]
				if p == b {
					continue
				}
				// p must reach b over exactly one edge
				edges := 0
				for _, s := range p.Succs {
					if s == b {
						edges++
					}
				}
				if edges != 1 {
					continue
				}
				val, okb := constBool(c)
				if !okb {
					continue
				}
				target := b.Succs[1]
				if val {
					target = b.Succs[0]
				}
				// the values the target's phis take when entered from b
				bIdx := -1
				for k, tp := range target.Preds {
					if tp == b {
						bIdx = k
					}
				}
				already := false
				for _, tp := range target.Preds {
					if tp == p {
						already = true
					}
				}
				if bIdx < 0 || already {
					continue
				}
				for k, s := range p.Succs {
					if s == b {
						p.Succs[k] = target
					}
				}
				target.Preds = append(target.Preds, p)
				for _, in := range target.Instrs {
					tphi, isPhi := in.(*ssa.Phi)
					if !isPhi {
						break
					}
					v := tphi.Edges[bIdx]
					tphi.Edges = append(tphi.Edges, v)
					addReferrer(v, tphi)
				}
				b.Preds = append(b.Preds[:i:i], b.Preds[i+1:]...)
				phi.Edges = append(phi.Edges[:i:i], phi.Edges[i+1:]...)
				threaded++
				changed = true
			}
			if len(b.Preds) == 0 {
				// unreachable now: detach from its successors
				for _, s := range b.Succs {
					for k := len(s.Preds) - 1; k >= 0; k-- {
						if s.Preds[k] != b {
							continue
						}
						s.Preds = append(s.Preds[:k:k], s.Preds[k+1:]...)
						for _, in := range s.Instrs {
							sphi, isPhi := in.(*ssa.Phi)
							if !isPhi {
								break
							}
							removeOneReferrer(sphi.Edges[k], sphi)
							sphi.Edges = append(sphi.Edges[:k:k], sphi.Edges[k+1:]...)
						}
					}
				}
				removeOneReferrer(phi, iff)
				fn.Blocks[b.Index] = nil
			}
		}
		if !changed {
			break
		}
		j := 0
		for _, b := range fn.Blocks {
			if b != nil {
				b.Index = j
				fn.Blocks[j] = b
				j++
			}
		}
		fn.Blocks = fn.Blocks[:j]
		ssaBuildDomTree(fn)
		ssaNumberRegisters(fn)
	}
	return threaded
}
