package main

// Return splitting (tail duplication of pure join-and-return blocks).
//
// `res = X; …; return res` and `return X` are the same program, but go/ssa gives the first a join block that
// consists of phis and one Return, so a rule that reads "what is returned under which branch facts" sees a
// single return of a phi with no facts. After the SSA build every such block is folded back into its
// predecessors: a predecessor that ends in an unconditional jump to the join gets its own Return, with each phi
// replaced by the value it has on that edge. Control flow, values and effects are unchanged (the join block
// contains nothing but phis and the Return; the phis are used by nothing else). The same shape is what the
// source-level inliner (inline.go) produces for `x, err := helper(…)`, so both refactorings are normalised here.

import (
	"go/token"
	"reflect"
	"unsafe"

	"golang.org/x/tools/go/ssa"
)

//go:linkname ssaBuildDomTree golang.org/x/tools/go/ssa.buildDomTree
func ssaBuildDomTree(f *ssa.Function)

func setUnexported(field reflect.Value, val interface{}) {
	reflect.NewAt(field.Type(), unsafe.Pointer(field.UnsafeAddr())).Elem().Set(reflect.ValueOf(val))
}

func newReturn(results []ssa.Value, b *ssa.BasicBlock, pos token.Pos) *ssa.Return {
	r := &ssa.Return{Results: results}
	v := reflect.ValueOf(r).Elem()
	setUnexported(v.FieldByName("anInstruction").FieldByName("block"), b)
	setUnexported(v.FieldByName("pos"), pos)
	return r
}

func removeOneReferrer(v ssa.Value, in ssa.Instruction) {
	refs := v.Referrers()
	if refs == nil {
		return
	}
	for i, r := range *refs {
		if r == in {
			*refs = append((*refs)[:i:i], (*refs)[i+1:]...)
			return
		}
	}
}

func addReferrer(v ssa.Value, in ssa.Instruction) {
	if refs := v.Referrers(); refs != nil {
		*refs = append(*refs, in)
	}
}

//go:linkname ssaNumberRegisters golang.org/x/tools/go/ssa.numberRegisters
func ssaNumberRegisters(f *ssa.Function)

// duplicable: a value computation without effects that may sit between the phis and the Return of a join block
// (boxing the result into an interface, a conversion, an arithmetic or boolean operator).
func duplicable(in ssa.Instruction) bool {
	switch x := in.(type) {
	case *ssa.MakeInterface, *ssa.ChangeType, *ssa.Convert, *ssa.ChangeInterface, *ssa.BinOp:
		return true
	case *ssa.UnOp:
		return x.Op != token.MUL && x.Op != token.ARROW
	}
	return false
}

// cloneValueInstr copies a duplicable instruction into block b with its operands renamed by subst.
func cloneValueInstr(in ssa.Instruction, b *ssa.BasicBlock, subst map[ssa.Value]ssa.Value) ssa.Instruction {
	rv := reflect.ValueOf(in).Elem()
	nv := reflect.New(rv.Type())
	nv.Elem().Set(rv)
	reg := nv.Elem().FieldByName("register")
	setUnexported(reg.FieldByName("anInstruction").FieldByName("block"), b)
	setUnexported(reg.FieldByName("referrers"), []ssa.Instruction(nil))
	ni := nv.Interface().(ssa.Instruction)
	for _, op := range ni.Operands(nil) {
		if op == nil || *op == nil {
			continue
		}
		if m, ok := subst[*op]; ok {
			*op = m
		}
		addReferrer(*op, ni)
	}
	return ni
}

// splitReturns applies the transformation to fn; it returns the number of returns created.
func splitReturns(fn *ssa.Function) int {
	created := 0
	for round := 0; round < 8; round++ {
		changed := false
		for _, b := range fn.Blocks {
			if b == nil || len(b.Preds) < 2 || len(b.Instrs) < 2 {
				continue
			}
			n := len(b.Instrs)
			ret, ok := b.Instrs[n-1].(*ssa.Return)
			if !ok {
				continue
			}
			phis := map[*ssa.Phi]bool{}
			var phiList []*ssa.Phi
			var mids []ssa.Instruction
			pure := true
			for _, in := range b.Instrs[:n-1] {
				if p, isPhi := in.(*ssa.Phi); isPhi && len(mids) == 0 {
					if p.Comment == "&&" || p.Comment == "||" {
						pure = false // the value of a short-circuit expression, not a join of assignments
						break
					}
					phis[p] = true
					phiList = append(phiList, p)
				} else if duplicable(in) {
					mids = append(mids, in)
				} else {
					pure = false
					break
				}
				// used only inside this block
				if refs := in.(ssa.Value).Referrers(); refs != nil {
					for _, r := range *refs {
						if r.Block() != b {
							pure = false
						}
						if _, isPhi := r.(*ssa.Phi); isPhi {
							pure = false
						}
					}
				}
			}
			if !pure || len(phis) == 0 {
				continue
			}
			for i := len(b.Preds) - 1; i >= 0; i-- {
				p := b.Preds[i]
				if p == b || len(p.Instrs) == 0 || len(p.Succs) != 1 {
					continue
				}
				if _, isJump := p.Instrs[len(p.Instrs)-1].(*ssa.Jump); !isJump {
					continue
				}
				subst := map[ssa.Value]ssa.Value{}
				for _, ph := range phiList {
					subst[ph] = ph.Edges[i]
				}
				tail := p.Instrs[:len(p.Instrs)-1]
				for _, m := range mids {
					c := cloneValueInstr(m, p, subst)
					subst[m.(ssa.Value)] = c.(ssa.Value)
					tail = append(tail, c)
				}
				results := make([]ssa.Value, len(ret.Results))
				for k, rv := range ret.Results {
					if m, okm := subst[rv]; okm {
						results[k] = m
					} else {
						results[k] = rv
					}
				}
				nr := newReturn(results, p, ret.Pos())
				p.Instrs = append(tail, nr)
				p.Succs = nil
				for _, v := range results {
					addReferrer(v, nr)
				}
				b.Preds = append(b.Preds[:i:i], b.Preds[i+1:]...)
				for _, ph := range phiList {
					removeOneReferrer(ph.Edges[i], ph)
					ph.Edges = append(ph.Edges[:i:i], ph.Edges[i+1:]...)
				}
				created++
				changed = true
			}
			switch len(b.Preds) {
			case 0:
				for _, in := range b.Instrs {
					for _, op := range in.Operands(nil) {
						if op != nil && *op != nil {
							removeOneReferrer(*op, in)
						}
					}
				}
				fn.Blocks[b.Index] = nil
			case 1:
				// single-edge phis: their users take the edge values directly
				for _, ph := range phiList {
					e := ph.Edges[0]
					for _, r := range *ph.Referrers() {
						for _, op := range r.Operands(nil) {
							if op != nil && *op == ssa.Value(ph) {
								*op = e
								addReferrer(e, r)
							}
						}
					}
					removeOneReferrer(e, ph)
				}
				b.Instrs = b.Instrs[len(phiList):]
			}
		}
		if !changed {
			break
		}
		j := 0
		for _, b := range fn.Blocks {
			if b != nil {
				b.Index = j
				fn.Blocks[j] = b
				j++
			}
		}
		fn.Blocks = fn.Blocks[:j]
		ssaBuildDomTree(fn)
		ssaNumberRegisters(fn)
	}
	return created
}
