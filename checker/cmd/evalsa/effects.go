package main

// Q1/Q2: ownership / effect engine.
//
// An interprocedural, context-insensitive, flow-insensitive label propagation
// over the SSA form of a set of functions (a closure of entry points). Every
// value carries a set of labels saying which pre-existing memory it may point
// into: a parameter of an entry point, a package-level variable, a free
// variable of a closure that was created outside the analysed set, or
// something a callback returned. A value with no label can only point to
// memory allocated during the analysed activation.
//
// The heap is abstracted by type and field: one abstract location per
// (struct type, field), per element type of containers, per pointee type of
// other pointers. A load yields the labels of the address it loads through
// joined with everything stored into the abstract location anywhere in the
// analysed set. This is sound for type-safe Go (assumption A2) and needs no
// points-to solver.
//
// Every instruction that writes memory (Store, MapUpdate, append, copy,
// delete, clear, channel send, mutating library call) becomes an Effect with
// the label set of the memory it writes; the rules decide which label sets
// are violations.

import (
	"fmt"
	"go/token"
	"go/types"
	"sort"
	"strings"

	"golang.org/x/tools/go/ssa"
)

type Label uint64

const (
	LCallback Label = 1 << 0 // returned by a callback or an unsummarised callee
	LFreeOut  Label = 1 << 1 // free variable of a closure created outside the analysed set
	LRecv     Label = 1 << 2 // received from a channel
	lParam0         = 3      // bits 3..10: parameters 0..7 of the entry points
	lGlobal0        = 11     // bits 11..: package-level variables
)

func paramLabel(i int) Label {
	if i > 7 {
		i = 7
	}
	return 1 << (lParam0 + uint(i))
}

type EffectKind string

const (
	EffStore   EffectKind = "store"
	EffMapUpd  EffectKind = "map-update"
	EffAppend  EffectKind = "append"
	EffCopy    EffectKind = "copy"
	EffDelete  EffectKind = "delete/clear"
	EffSend    EffectKind = "send"
	EffLibMut  EffectKind = "mutating-library-call"
	EffUnknown EffectKind = "unsummarised-callee"
)

type Effect struct {
	Instr  ssa.Instruction
	Kind   EffectKind
	Target ssa.Value // the address / container written
	Labels Label
	Note   string
}

type EffectAnalysis struct {
	w        *World
	set      map[*ssa.Function]bool
	entries  map[*ssa.Function]bool
	val      map[ssa.Value]Label
	loc      map[string]Label
	ret      map[*ssa.Function][]Label
	unify    map[string]string // union-find over location keys
	globals  []*ssa.Global
	gbit     map[*ssa.Global]Label
	Effects  []Effect
	changed  bool
	collect  bool
	extOutMC map[*ssa.Function]bool // closures that are (also) created outside the analysed set
	// EntryParamLabels overrides the label given to parameters of entry
	// functions (default: paramLabel(index)).
	Calls int
}

// NewEffectAnalysis analyses the given function set; params of `entries` are
// labelled as foreign.
func NewEffectAnalysis(w *World, set map[*ssa.Function]bool, entries []*ssa.Function) *EffectAnalysis {
	a := &EffectAnalysis{w: w, set: set, entries: map[*ssa.Function]bool{}, val: map[ssa.Value]Label{},
		loc: map[string]Label{}, ret: map[*ssa.Function][]Label{}, unify: map[string]string{},
		gbit: map[*ssa.Global]Label{}, extOutMC: map[*ssa.Function]bool{}}
	for _, e := range entries {
		a.entries[e] = true
	}
	// package-level variables, in a stable order
	var names []string
	for name, m := range w.SPkg.Members {
		if _, ok := m.(*ssa.Global); ok {
			names = append(names, name)
		}
	}
	sort.Strings(names)
	for i, n := range names {
		g := w.SPkg.Members[n].(*ssa.Global)
		a.globals = append(a.globals, g)
		bit := lGlobal0 + uint(i)
		if bit > 62 {
			bit = 62
		}
		a.gbit[g] = 1 << bit
	}
	// closures created outside the analysed set
	for _, fn := range w.Funcs {
		if set[fn] {
			continue
		}
		EachInstr(fn, func(in ssa.Instruction) {
			if mc, ok := in.(*ssa.MakeClosure); ok {
				if f, ok := mc.Fn.(*ssa.Function); ok {
					a.extOutMC[f] = true
				}
			}
		})
	}
	a.prepassEscapingAddrs()
	a.run()
	return a
}

// ---- abstract locations -----------------------------------------------------

func (a *EffectAnalysis) find(k string) string {
	for {
		p, ok := a.unify[k]
		if !ok || p == k {
			return k
		}
		k = p
	}
}

func (a *EffectAnalysis) union(x, y string) {
	x, y = a.find(x), a.find(y)
	if x != y {
		a.unify[x] = y
	}
}

func typeKey(t types.Type) string { return types.TypeString(t, nil) }

func fieldLoc(structT types.Type, i int) string {
	return fmt.Sprintf("field:%s#%d", typeKey(structT), i)
}

func elemLoc(elemT types.Type) string { return "elem:" + typeKey(elemT) }
func keyLoc(keyT types.Type) string   { return "key:" + typeKey(keyT) }
func derefLoc(t types.Type) string    { return "deref:" + typeKey(t) }

// locsOfAddr returns the abstract locations written/read through an address
// for a value of type valT stored there.
func (a *EffectAnalysis) locsOfAddr(addr ssa.Value) []string {
	switch x := addr.(type) {
	case *ssa.FieldAddr:
		st := deref(x.X.Type())
		ft := st.Underlying().(*types.Struct).Field(x.Field).Type()
		return a.expandLoc(fieldLoc(st, x.Field), ft)
	case *ssa.IndexAddr:
		var et types.Type
		switch t := x.X.Type().Underlying().(type) {
		case *types.Slice:
			et = t.Elem()
		case *types.Pointer:
			et = t.Elem().Underlying().(*types.Array).Elem()
		}
		if et != nil {
			return a.expandLoc(elemLoc(et), et)
		}
	}
	pt := deref(addr.Type())
	return a.expandLoc(derefLoc(pt), pt)
}

// expandLoc: a location holding a struct/array value stands for the locations
// of its components too.
func (a *EffectAnalysis) expandLoc(base string, t types.Type) []string {
	out := []string{a.find(base)}
	var rec func(t types.Type, depth int)
	rec = func(t types.Type, depth int) {
		if depth > 3 {
			return
		}
		switch u := t.Underlying().(type) {
		case *types.Struct:
			for i := 0; i < u.NumFields(); i++ {
				out = append(out, a.find(fieldLoc(t, i)))
				rec(u.Field(i).Type(), depth+1)
			}
		case *types.Array:
			out = append(out, a.find(elemLoc(u.Elem())))
			rec(u.Elem(), depth+1)
		}
	}
	rec(t, 0)
	return out
}

// prepassEscapingAddrs unifies a field/element location with the generic
// pointee location of its type whenever its address is used as a first-class
// pointer (so that loads and stores through the escaped pointer meet).
func (a *EffectAnalysis) prepassEscapingAddrs() {
	for fn := range a.set {
		EachInstr(fn, func(in ssa.Instruction) {
			v, ok := in.(ssa.Value)
			if !ok {
				return
			}
			var base string
			switch x := v.(type) {
			case *ssa.FieldAddr:
				st := deref(x.X.Type())
				base = fieldLoc(st, x.Field)
			case *ssa.IndexAddr:
				switch t := x.X.Type().Underlying().(type) {
				case *types.Slice:
					base = elemLoc(t.Elem())
				case *types.Pointer:
					base = elemLoc(t.Elem().Underlying().(*types.Array).Elem())
				}
			default:
				return
			}
			if base == "" {
				return
			}
			escapes := false
			for _, ref := range referrers(v) {
				switch r := ref.(type) {
				case *ssa.UnOp:
					if r.Op != token.MUL {
						escapes = true
					}
				case *ssa.Store:
					if r.Addr != v {
						escapes = true
					}
				case *ssa.FieldAddr, *ssa.IndexAddr:
				case *ssa.Slice:
				case *ssa.DebugRef:
				default:
					escapes = true
				}
			}
			if escapes {
				a.union(base, derefLoc(deref(v.Type())))
			}
		})
	}
}

// ---- label propagation --------------------------------------------------------

func noPointers(t types.Type) bool {
	switch u := t.Underlying().(type) {
	case *types.Basic:
		return true
	case *types.Struct:
		for i := 0; i < u.NumFields(); i++ {
			if !noPointers(u.Field(i).Type()) {
				return false
			}
		}
		return true
	case *types.Array:
		return noPointers(u.Elem())
	case *types.Tuple:
		for i := 0; i < u.Len(); i++ {
			if !noPointers(u.At(i).Type()) {
				return false
			}
		}
		return true
	}
	return false
}

func (a *EffectAnalysis) L(v ssa.Value) Label {
	switch x := v.(type) {
	case nil:
		return 0
	case *ssa.Const, *ssa.Function, *ssa.Builtin:
		return 0
	case *ssa.Global:
		return a.gbit[x]
	}
	return a.val[v]
}

func (a *EffectAnalysis) set0(v ssa.Value, l Label) {
	if v == nil || l == 0 {
		return
	}
	if noPointers(v.Type()) {
		return
	}
	if old := a.val[v]; old|l != old {
		a.val[v] = old | l
		a.changed = true
	}
}

func (a *EffectAnalysis) addLoc(k string, l Label) {
	if l == 0 {
		return
	}
	k = a.find(k)
	if old := a.loc[k]; old|l != old {
		a.loc[k] = old | l
		a.changed = true
	}
}

func (a *EffectAnalysis) content(keys []string) Label {
	var l Label
	for _, k := range keys {
		l |= a.loc[a.find(k)]
	}
	return l
}

func (a *EffectAnalysis) run() {
	fns := a.w.SortedFuncs(a.set)
	for iter := 0; iter < 60; iter++ {
		a.changed = false
		for _, fn := range fns {
			a.visitFunc(fn)
		}
		if !a.changed {
			break
		}
	}
	a.collect = true
	for _, fn := range fns {
		a.visitFunc(fn)
	}
	a.collect = false
}

func (a *EffectAnalysis) effect(in ssa.Instruction, kind EffectKind, target ssa.Value, l Label, note string) {
	if a.collect {
		a.Effects = append(a.Effects, Effect{Instr: in, Kind: kind, Target: target, Labels: l, Note: note})
	}
}

func (a *EffectAnalysis) visitFunc(fn *ssa.Function) {
	if a.entries[fn] {
		for i, p := range fn.Params {
			a.set0(p, paramLabel(i))
		}
	}
	if a.extOutMC[fn] {
		for _, fv := range fn.FreeVars {
			a.set0(fv, LFreeOut)
		}
	}
	for _, b := range fn.Blocks {
		for _, in := range b.Instrs {
			a.visitInstr(fn, in)
		}
	}
}

func (a *EffectAnalysis) visitInstr(fn *ssa.Function, in ssa.Instruction) {
	switch x := in.(type) {
	case *ssa.Alloc, *ssa.MakeSlice, *ssa.MakeMap, *ssa.MakeChan:
		// fresh memory: no label
	case *ssa.MakeClosure:
		if f, ok := x.Fn.(*ssa.Function); ok {
			for i, b := range x.Bindings {
				if i < len(f.FreeVars) {
					a.set0(f.FreeVars[i], a.L(b))
				}
			}
		}
	case *ssa.FieldAddr:
		a.set0(x, a.L(x.X))
	case *ssa.Field:
		a.set0(x, a.L(x.X))
	case *ssa.IndexAddr:
		a.set0(x, a.L(x.X))
	case *ssa.Index:
		a.set0(x, a.L(x.X))
	case *ssa.Slice:
		a.set0(x, a.L(x.X))
	case *ssa.ChangeType:
		a.set0(x, a.L(x.X))
	case *ssa.Convert:
		a.set0(x, a.L(x.X))
	case *ssa.ChangeInterface:
		a.set0(x, a.L(x.X))
	case *ssa.MakeInterface:
		a.set0(x, a.L(x.X))
	case *ssa.SliceToArrayPointer:
		a.set0(x, a.L(x.X))
	case *ssa.TypeAssert:
		a.set0(x, a.L(x.X))
	case *ssa.Extract:
		if c, ok := x.Tuple.(*ssa.Call); ok {
			a.set0(x, a.callResult(c, x.Index))
		} else {
			a.set0(x, a.L(x.Tuple))
		}
	case *ssa.Phi:
		var l Label
		for _, e := range x.Edges {
			l |= a.L(e)
		}
		a.set0(x, l)
	case *ssa.UnOp:
		switch x.Op {
		case token.MUL:
			a.set0(x, a.L(x.X)|a.content(a.locsOfAddr(x.X)))
		case token.ARROW:
			a.set0(x, LRecv|a.L(x.X))
		}
	case *ssa.Lookup:
		if mt, ok := x.X.Type().Underlying().(*types.Map); ok {
			a.set0(x, a.L(x.X)|a.content(a.expandLoc(elemLoc(mt.Elem()), mt.Elem())))
		}
	case *ssa.Range:
		a.set0(x, a.L(x.X))
	case *ssa.Next:
		l := a.L(x.Iter)
		if r, ok := x.Iter.(*ssa.Range); ok {
			if mt, ok := r.X.Type().Underlying().(*types.Map); ok {
				l |= a.content(a.expandLoc(elemLoc(mt.Elem()), mt.Elem())) | a.content([]string{keyLoc(mt.Key())})
			}
		}
		a.set0(x, l)
	case *ssa.Store:
		a.effect(x, EffStore, x.Addr, a.L(x.Addr), "")
		lv := a.L(x.Val)
		for _, k := range a.locsOfAddr(x.Addr) {
			a.addLoc(k, lv)
		}
	case *ssa.MapUpdate:
		a.effect(x, EffMapUpd, x.Map, a.L(x.Map), "")
		if mt, ok := x.Map.Type().Underlying().(*types.Map); ok {
			for _, k := range a.expandLoc(elemLoc(mt.Elem()), mt.Elem()) {
				a.addLoc(k, a.L(x.Value))
			}
			a.addLoc(keyLoc(mt.Key()), a.L(x.Key))
		}
	case *ssa.Send:
		a.effect(x, EffSend, x.Chan, a.L(x.Chan), "")
	case *ssa.Return:
		rs := a.ret[fn]
		if len(rs) < len(x.Results) {
			rs = append(rs, make([]Label, len(x.Results)-len(rs))...)
		}
		for i, r := range x.Results {
			if noPointers(r.Type()) {
				continue
			}
			if l := a.L(r); rs[i]|l != rs[i] {
				rs[i] |= l
				a.changed = true
			}
		}
		a.ret[fn] = rs
	case *ssa.Call:
		a.visitCall(x, x)
		if x.Type() != nil {
			if _, isTuple := x.Type().(*types.Tuple); !isTuple {
				a.set0(x, a.callResult(x, 0))
			}
		}
	case *ssa.Defer:
		a.visitCall(x, nil)
	case *ssa.Go:
		a.visitCall(x, nil)
	}
}

// callResult is the label of result i of a call.
func (a *EffectAnalysis) callResult(c *ssa.Call, i int) Label {
	cc := &c.Call
	if b, ok := cc.Value.(*ssa.Builtin); ok {
		switch nm(b) {
		case "append":
			var l Label
			for _, arg := range cc.Args[:1] {
				l |= a.L(arg)
			}
			return l
		case "recover":
			return LCallback
		}
		return 0
	}
	var l Label
	callees, external := a.resolve(c)
	for _, f := range callees {
		if rs := a.ret[f]; i < len(rs) {
			l |= rs[i]
		}
	}
	if external {
		l |= a.externalResult(c, i)
	}
	return l
}

// resolve returns the analysed callees of a call and whether the call may also
// reach code outside the analysed set (library function or callback).
func (a *EffectAnalysis) resolve(site ssa.CallInstruction) (in []*ssa.Function, external bool) {
	cc := site.Common()
	if f := cc.StaticCallee(); f != nil {
		if a.set[f] {
			return []*ssa.Function{f}, false
		}
		return nil, true
	}
	for _, f := range a.w.Callees(a.w.VTA, site) {
		if a.set[f] {
			in = append(in, f)
		} else {
			external = true
		}
	}
	if len(in) == 0 || a.mayBeCallback(cc) {
		external = true
	}
	return in, external
}

// mayBeCallback: a dynamic call through an exported function type or an
// interface declared with exported methods can reach user code.
func (a *EffectAnalysis) mayBeCallback(cc *ssa.CallCommon) bool {
	if cc.IsInvoke() {
		return true
	}
	t := cc.Value.Type()
	if n, ok := t.(*types.Named); ok {
		return n.Obj().Exported()
	}
	// unnamed func types: only internal closures flow into them unless the
	// value is loaded from an exported field or parameter of an exported API;
	// VTA's callee set decides (empty set handled by the caller).
	return false
}

var pureLib = map[string]bool{
	"fmt.Sprintf": true, "fmt.Sprint": true, "fmt.Sprintln": true, "fmt.Errorf": true,
	"fmt.Println": true, "fmt.Printf": true, "fmt.Print": true,
	"errors.New": true, "errors.Is": true, "errors.As": true, "errors.Unwrap": true,
	"time.Parse": true, "(time.Time).Unix": true, "time.Now": true,
	"reflect.TypeOf":            true,
	"reflect.ValueOf": true, "(reflect.Value).Kind": true, "(reflect.Value).IsNil": true, "(reflect.Value).Elem": true,
	"(reflect.Value).Len": true, "(reflect.Value).Index": true, "(reflect.Value).NumField": true, "(reflect.Value).Field": true,
	"(*strings.Builder).String": true, "(*strings.Builder).Len": true,
	"math.Max": true, "math.Min": true,
	"sort.SearchInts": true,
}

var pureLibPrefix = []string{"strings.", "strconv.", "unicode.", "math.", "unicode/utf8.", "time."}

// mutatesArg0 lists library callees that write through their first argument.
var mutatesArg0 = map[string]bool{
	"(*strings.Builder).WriteString": true, "(*strings.Builder).WriteRune": true, "(*strings.Builder).WriteByte": true,
	"(*strings.Builder).Write": true, "(*strings.Builder).Grow": true, "(*strings.Builder).Reset": true,
	"sort.Slice": true, "sort.SliceStable": true, "sort.Sort": true, "sort.Stable": true,
	"sort.Strings": true, "sort.Ints": true, "sort.Float64s": true,
	"(*math/rand.Rand).Intn": true, "(*math/rand.Rand).Int63": true, "(*math/rand.Rand).Int": true,
	"(*math/rand.Rand).Seed": true, "(*math/rand.Rand).Shuffle": true, "(*math/rand.Rand).Perm": true,
	"(*math/rand.Rand).Int63n": true, "(*math/rand.Rand).Int31n": true, "(*math/rand.Rand).Float64": true,
	"(*sync.Mutex).Lock": true, "(*sync.Mutex).Unlock": true, "(*sync.Pool).Get": true, "(*sync.Pool).Put": true,
}

func isPureLib(name string) bool {
	if pureLib[name] {
		return true
	}
	for _, p := range pureLibPrefix {
		if strings.HasPrefix(name, p) {
			return true
		}
	}
	return false
}

func (a *EffectAnalysis) externalResult(c *ssa.Call, i int) Label {
	cc := &c.Call
	if f := cc.StaticCallee(); f != nil {
		name := calleeFullName(cc)
		if isPureLib(name) || mutatesArg0[name] {
			if name == "(*sync.Pool).Get" {
				return LCallback
			}
			return 0 // fresh result
		}
		return LCallback
	}
	return LCallback
}

func (a *EffectAnalysis) visitCall(site ssa.CallInstruction, val *ssa.Call) {
	cc := site.Common()
	in := site.(ssa.Instruction)
	if b, ok := cc.Value.(*ssa.Builtin); ok {
		switch nm(b) {
		case "append":
			if len(cc.Args) >= 1 {
				note := ""
				if isNilConst(cc.Args[0]) {
					note = "append to nil: fresh backing array"
				}
				a.effect(in, EffAppend, cc.Args[0], a.L(cc.Args[0]), note)
				if st, ok := cc.Args[0].Type().Underlying().(*types.Slice); ok && len(cc.Args) == 2 {
					l := a.L(cc.Args[1])
					if st2, ok := cc.Args[1].Type().Underlying().(*types.Slice); ok {
						l |= a.content(a.expandLoc(elemLoc(st2.Elem()), st2.Elem()))
					}
					for _, k := range a.expandLoc(elemLoc(st.Elem()), st.Elem()) {
						a.addLoc(k, l)
					}
				}
			}
		case "copy":
			if len(cc.Args) == 2 {
				a.effect(in, EffCopy, cc.Args[0], a.L(cc.Args[0]), "")
				if st, ok := cc.Args[0].Type().Underlying().(*types.Slice); ok {
					l := a.L(cc.Args[1])
					if st2, ok := cc.Args[1].Type().Underlying().(*types.Slice); ok {
						l |= a.content(a.expandLoc(elemLoc(st2.Elem()), st2.Elem()))
					}
					for _, k := range a.expandLoc(elemLoc(st.Elem()), st.Elem()) {
						a.addLoc(k, l)
					}
				}
			}
		case "delete", "clear":
			if len(cc.Args) >= 1 {
				a.effect(in, EffDelete, cc.Args[0], a.L(cc.Args[0]), "")
			}
		}
		return
	}
	callees, external := a.resolve(site)
	for _, f := range callees {
		a.Calls++
		if cc.IsInvoke() {
			// receiver is params[0]
			if len(f.Params) > 0 {
				a.set0(f.Params[0], a.L(cc.Value))
			}
			for i, arg := range cc.Args {
				if i+1 < len(f.Params) {
					a.set0(f.Params[i+1], a.L(arg))
				}
			}
		} else {
			for i, arg := range cc.Args {
				if i < len(f.Params) {
					a.set0(f.Params[i], a.L(arg))
				}
			}
			// calling a closure value: free variables were bound at MakeClosure
		}
	}
	if !external {
		return
	}
	if f := cc.StaticCallee(); f != nil {
		name := calleeFullName(cc)
		switch {
		case mutatesArg0[name]:
			if len(cc.Args) > 0 {
				a.effect(in, EffLibMut, cc.Args[0], a.L(cc.Args[0]), name)
			}
		case isPureLib(name):
		default:
			// unsummarised library callee: undecided if it receives foreign memory
			var l Label
			for _, arg := range cc.Args {
				if !noPointers(arg.Type()) && !isStringLike(arg.Type()) {
					l |= a.L(arg)
				}
			}
			a.effect(in, EffUnknown, nil, l, name)
		}
	}
	// dynamic external calls are callbacks (A1): no effect assumed
}

func isStringLike(t types.Type) bool {
	b, ok := t.Underlying().(*types.Basic)
	return ok && b.Info()&types.IsString != 0
}

// LabelNames renders a label set.
func (a *EffectAnalysis) LabelNames(l Label) string {
	if l == 0 {
		return "local"
	}
	var parts []string
	if l&LCallback != 0 {
		parts = append(parts, "callback-result")
	}
	if l&LFreeOut != 0 {
		parts = append(parts, "captured-at-compile-time")
	}
	if l&LRecv != 0 {
		parts = append(parts, "channel-receive")
	}
	for i := 0; i < 8; i++ {
		if l&paramLabel(i) != 0 {
			parts = append(parts, fmt.Sprintf("entry-param#%d", i))
		}
	}
	for _, g := range a.globals {
		if l&a.gbit[g] != 0 {
			parts = append(parts, "global:"+g.Name())
		}
	}
	return strings.Join(parts, "+")
}

// GlobalMask is the union of all package-variable labels.
func (a *EffectAnalysis) GlobalMask() Label {
	var l Label
	for _, b := range a.gbit {
		l |= b
	}
	return l
}

func (a *EffectAnalysis) GlobalBit(g *ssa.Global) Label { return a.gbit[g] }
