package main

// C10 — constant folding respects operator purity and defers failures.

import (
	"fmt"
	"go/token"
	"go/types"

	"golang.org/x/tools/go/ssa"
)

func init() {
	register(&Property{
		ID:    "C10",
		Level: "other",
		Explanation: "Decides the three sentences of C10 structurally: (R-FOLDGATE) census of every dynamic call of an Operator-typed value in the compile closure (today exactly one, in optimizeConstantFolding): its function value is result #1 of a call of isStatelessOp and it executes only on the true edge of result #0 of the same call; no other compile-time function calls an operator. " +
			"(R-STATELESS) isStatelessOp returns true only with builtinOperators[name] under name == an element of builtinStatelessOperations, or with c.OperatorMap[name] (non-nil) under name == an element of c.StatelessOperators, for the node's own name; every other return is (false, nil). (R-STATELESS-TABLE) builtinStatelessOperations is a subset of the operator table's keys. " +
			"(R-FOLDOK) every write to the tree in the folding pass executes only on the err == nil edge of the operator call, or is the and/or absorption; the failing edge only returns; the optimizer function type has no error result and the optimizers contain no panic, so a failing constant cannot fail Compile. " +
			"(R-FOLDCONST) the call executes only after a loop over all children that leaves the function at the first child whose kind is not `constant`, and its arguments are those children's values in order; the absorption is gated by a constant child whose bool value is false under isAndOpNode / true under isOrOpNode of the same node, and installs that value. " +
			"That results are never baked in at run time is C07's R-EFFECT. (R-OPRESOLVE) parser and folder resolve an operator name to the same function (built-in table first). NOT decided: that a folded value equals the run-time value.",
		Run:       runC10,
		Witnesses: append(append([]Witness{}, statelessShapeWitnesses...), c10Witnesses...),
	})
}

func operatorSig(w *World) *types.Signature {
	n := w.NamedType("Operator")
	if n == nil {
		return nil
	}
	s, _ := n.Underlying().(*types.Signature)
	return s
}

func isOperatorCall(w *World, cc *ssa.CallCommon) bool {
	if cc.IsInvoke() || !isDynamicCall(cc) {
		return false
	}
	sig := operatorSig(w)
	if sig == nil {
		return false
	}
	s, ok := cc.Value.Type().Underlying().(*types.Signature)
	return ok && types.Identical(s, sig)
}

func runC10(w *World, r *Report) {
	const rule = "R-FOLDGATE"
	r.Rule(rule, "every dynamic Operator call in the compile closure takes its function from isStatelessOp's result #1 and is dominated by result #0 == true of the same call", 1)
	_, set, note := compileClosure(w, r, rule)
	if set == nil {
		return
	}
	if note != "" {
		r.Note("%s", note)
	}
	isl := w.MustFn(r, rule, "isStatelessOp")
	var foldCalls []*ssa.Call
	for _, fn := range w.SortedFuncs(set) {
		EachInstr(fn, func(in ssa.Instruction) {
			ci, ok := in.(ssa.CallInstruction)
			if !ok || !isOperatorCall(w, ci.Common()) {
				return
			}
			cc := ci.Common()
			pos := w.InstrPos(in)
			what := describeCall(cc, 4)
			ex, ok := cc.Value.(*ssa.Extract)
			var src *ssa.Call
			if ok && ex.Index == 1 {
				src, _ = ex.Tuple.(*ssa.Call)
			}
			if src == nil || isl == nil || src.Call.StaticCallee() != isl {
				r.Fail(rule, pos, w.Name(fn), what, "an operator is invoked during Compile and its function value is not the one approved by isStatelessOp")
				return
			}
			gated := false
			for _, f := range factsAt(in.Block()) {
				if e0, ok := f.Cond.(*ssa.Extract); ok && e0.Tuple == src && e0.Index == 0 && f.Truth {
					gated = true
				}
			}
			if r.Check(gated, rule, pos, w.Name(fn), what, "function value and gate come from the same isStatelessOp call; the call executes only if it answered true",
				"the call is not dominated by the stateless answer being true: an undeclared operator may run (and be baked in) at compile time") {
				if c, ok := in.(*ssa.Call); ok {
					foldCalls = append(foldCalls, c)
				}
			}
		})
	}
	ruleStateless(w, r, isl)
	for _, c := range foldCalls {
		ruleFoldOK(w, r, c)
		ruleFoldConst(w, r, c)
	}
	if len(foldCalls) == 0 {
		r.Rule("R-FOLDOK", "tree writes in the folding pass only on success", 1)
		r.Rule("R-FOLDCONST", "fold only constants", 1)
	}
	ruleFoldNoFail(w, r)
	ruleOpResolve(w, r)
	// a fold applies built-in operators inside Compile: their panic-freedom on constant operands is part of
	// "a failing constant sub-expression does not fail Compile"
	ruleIfaceEq(w, r)
	ruleDiv0(w, r)
}

// ---- R-STATELESS --------------------------------------------------------------

func ruleStateless(w *World, r *Report, fn *ssa.Function) {
	const rule = "R-STATELESS"
	r.Rule(rule, "isStatelessOp approves only names listed in builtinStatelessOperations (returning builtinOperators[name]) or in c.StatelessOperators (returning the non-nil c.OperatorMap[name]); everything else is (false, nil)", 4)
	const trule = "R-STATELESS-TABLE"
	r.Rule(trule, "builtinStatelessOperations is a subset of the keys of builtinOperators (a stray name would hand a nil function to the folding pass)", 1)
	if list, pos, err := w.StringList("builtinStatelessOperations"); err != nil {
		r.Unresolved(trule, err.Error())
	} else if table, err := w.OperatorTable("builtinOperators"); err != nil {
		r.Unresolved(trule, err.Error())
	} else {
		keys := map[string]bool{}
		for _, impl := range table {
			if !impl.Nil && impl.Func != nil {
				keys[impl.Key] = true
			}
		}
		var stray []string
		for _, n := range list {
			if !keys[n] {
				stray = append(stray, n)
			}
		}
		r.Check(len(stray) == 0, trule, w.Pos(pos), "builtinStatelessOperations", fmt.Sprintf("%d names", len(list)), "every name is a key of builtinOperators with a non-nil implementation", fmt.Sprintf("names without an implementation: %v", stray))
	}
	if fn == nil || len(fn.Params) != 2 {
		r.Unresolved(rule, "isStatelessOp(c *Config, n *node) not found")
		return
	}
	cParam, nParam := fn.Params[0], fn.Params[1]
	name := w.Name(fn)
	isOwnName := func(v ssa.Value) bool {
		ex, ok := v.(*ssa.Extract)
		if !ok || ex.Index != 0 {
			if ta, ok := v.(*ssa.TypeAssert); ok && !ta.CommaOk {
				base, okv := loadOfField(ta.X, "node", "value")
				return okv && base == ssa.Value(nParam)
			}
			return false
		}
		ta, ok := ex.Tuple.(*ssa.TypeAssert)
		if !ok {
			return false
		}
		base, okv := loadOfField(ta.X, "node", "value")
		return okv && base == ssa.Value(nParam)
	}
	// listFact: a dominating fact `elem == name` with elem ranging over the given list
	listFact := func(b *ssa.BasicBlock, isList func(ssa.Value) bool) bool {
		for _, f := range factsAt(b) {
			bo, ok := f.Cond.(*ssa.BinOp)
			if !ok || !((bo.Op == token.EQL && f.Truth) || (bo.Op == token.NEQ && !f.Truth)) {
				continue
			}
			x, y := bo.X, bo.Y
			if isOwnName(x) {
				x, y = y, x
			}
			if !isOwnName(y) {
				continue
			}
			addr, ok := isLoad(x)
			if !ok {
				continue
			}
			ia, ok := addr.(*ssa.IndexAddr)
			if ok && isList(ia.X) {
				return true
			}
		}
		return false
	}
	isBuiltinList := func(v ssa.Value) bool {
		a, ok := isLoad(v)
		g, okg := a.(*ssa.Global)
		return ok && okg && nm(g) == "builtinStatelessOperations"
	}
	isConfList := func(v ssa.Value) bool {
		base, ok := loadOfField(v, "Config", "StatelessOperators")
		return ok && base == ssa.Value(cParam)
	}
	for _, ret := range allReturns(fn) {
		pos := w.InstrPos(ret)
		what := "return " + describe(ret.Results[0]) + ", " + describe(ret.Results[1])
		b, isConst := constBool(ret.Results[0])
		if !isConst {
			// `return fn != nil, fn` with fn the registered operator of a listed name: (true, fn) or (false, nil)
			if x, isEq, okn := nilCompare(ret.Results[0]); okn && !isEq && x == ret.Results[1] {
				if lk, okl := x.(*ssa.Lookup); okl && isOwnName(lk.Index) {
					if base, okf := loadOfField(lk.X, "Config", "OperatorMap"); okf && base == ssa.Value(cParam) {
						r.Check(listFact(ret.Block(), isConfList), rule, pos, name, what,
							"registered operator, approved exactly when the map entry is non-nil, under name == an element of c.StatelessOperators",
							"a registered operator is approved without being listed in c.StatelessOperators")
						continue
					}
				}
			}
			r.Fail(rule, pos, name, what, "the stateless answer is not a constant on this path")
			continue
		}
		if !b {
			r.Check(isNilConst(ret.Results[1]), rule, pos, name, what, "negative answer carries no function", "a function is handed out with a negative answer")
			continue
		}
		lk, ok := ret.Results[1].(*ssa.Lookup)
		if !ok || !isOwnName(lk.Index) {
			r.Fail(rule, pos, name, what, "approves a function that is not looked up under the node's own name")
			continue
		}
		if a, okl := isLoad(lk.X); okl {
			if g, okg := a.(*ssa.Global); okg && nm(g) == "builtinOperators" {
				r.Check(listFact(ret.Block(), isBuiltinList), rule, pos, name, what,
					"built-in implementation, approved only under name == an element of builtinStatelessOperations",
					"a built-in is approved without its name being found in builtinStatelessOperations")
				continue
			}
		}
		if base, okf := loadOfField(lk.X, "Config", "OperatorMap"); okf && base == ssa.Value(cParam) {
			nonNil := false
			for _, f := range factsAt(ret.Block()) {
				if x, isNil, ok := factIsNil(f); ok && x == ssa.Value(lk) && !isNil {
					nonNil = true
				}
			}
			r.Check(listFact(ret.Block(), isConfList) && nonNil, rule, pos, name, what,
				"registered operator, approved only under name == an element of c.StatelessOperators and a non-nil map entry",
				"a registered operator is approved without being listed in c.StatelessOperators (or may be nil)")
			continue
		}
		r.Fail(rule, pos, name, what, "approves a function from an unexpected source")
	}
}

// ---- R-FOLDOK -----------------------------------------------------------------

func ruleFoldOK(w *World, r *Report, call *ssa.Call) {
	const rule = "R-FOLDOK"
	r.Rule(rule, "every write to the tree in the folding pass executes on the err == nil edge of the operator call or is the gated and/or absorption; the error edge only returns", 3)
	fn := call.Parent()
	name := w.Name(fn)
	var errVal ssa.Value
	for _, ref := range referrers(call) {
		if ex, ok := ref.(*ssa.Extract); ok && ex.Index == 1 {
			errVal = ex
		}
	}
	if errVal == nil {
		r.Fail(rule, w.InstrPos(call), name, describe(call), "the error result of the compile-time operator call is discarded")
		return
	}
	errNilAt := func(b *ssa.BasicBlock) bool {
		for _, f := range factsAt(b) {
			if x, isNil, ok := factIsNil(f); ok && x == errVal && isNil {
				return true
			}
		}
		return false
	}
	// error edge only returns
	for _, b := range fn.Blocks {
		iff, ok := b.Instrs[len(b.Instrs)-1].(*ssa.If)
		if !ok {
			continue
		}
		x, isEq, ok := nilCompare(iff.Cond)
		if !ok || x != errVal {
			continue
		}
		errEdge := 0
		if isEq {
			errEdge = 1
		}
		eb := b.Succs[errEdge]
		onlyReturn := blockReturn(eb) != nil
		for _, in := range eb.Instrs {
			switch in.(type) {
			case *ssa.Store, *ssa.MapUpdate, *ssa.Call, *ssa.Panic:
				onlyReturn = false
			}
		}
		r.Check(onlyReturn, rule, w.InstrPos(iff), name, "failing edge of the compile-time operator call", "returns without touching the tree: the unfolded node stays and fails, if reached, in Eval",
			"the failing edge does something other than return (Compile must not fail or fold on a failing constant)")
	}
	// tree writes
	EachInstr(fn, func(in ssa.Instruction) {
		st, ok := in.(*ssa.Store)
		if !ok {
			return
		}
		tn, fld, _, okf := fieldOf(st.Addr)
		if !okf || tn != "astNode" {
			// `*root = *other`: the whole record of a tree node is overwritten
			if typeNameOf(deref(st.Addr.Type())) != "astNode" {
				return
			}
			if _, isAlloc := st.Addr.(*ssa.Alloc); isAlloc {
				return // a local copy, not the tree
			}
		}
		pos := w.InstrPos(st)
		what := describe(st.Addr) + " = " + describe(st.Val)
		if errNilAt(st.Block()) {
			r.OK(rule, pos, name, what, "dominated by err == nil of the operator call")
			return
		}
		if ok, why := absorptionGate(w, st.Block()); ok {
			r.OK(rule, pos, name, what, "and/or absorption: "+why)
			return
		}
		_ = fld
		r.Fail(rule, pos, name, what, "the tree is rewritten on a path where the operator call did not succeed and no deciding constant operand was seen")
	})
}

// absorptionGate: every edge into the block carries: a child of kind constant
// whose value asserted to bool is b, and (b && isOrOpNode(n)) or (!b && isAndOpNode(n)).
func absorptionGate(w *World, b *ssa.BasicBlock) (bool, string) {
	k := loadNodeKinds(w)
	check := func(facts []Fact) bool {
		var bTrue, bFalse, isOr, isAnd, constKind, okBool bool
		for _, f := range facts {
			switch c := f.Cond.(type) {
			case *ssa.Extract:
				if ta, ok := c.Tuple.(*ssa.TypeAssert); ok {
					if bt, okb := ta.AssertedType.Underlying().(*types.Basic); okb && bt.Kind() == types.Bool {
						if _, okv := loadOfField(ta.X, "node", "value"); okv {
							if c.Index == 1 && f.Truth {
								okBool = true
							}
							if c.Index == 0 {
								if f.Truth {
									bTrue = true
								} else {
									bFalse = true
								}
							}
						}
					}
				}
			case *ssa.Call:
				if callee := c.Call.StaticCallee(); callee != nil && f.Truth {
					switch nm(callee) {
					case "isOrOpNode":
						isOr = true
					case "isAndOpNode":
						isAnd = true
					}
				}
			case *ssa.BinOp:
				if _, kc, isEq, ok := k.kindTest(c); ok && kc == k.constant && isEq == f.Truth {
					constKind = true
				}
			}
		}
		return okBool && constKind && ((bTrue && isOr && !bFalse) || (bFalse && isAnd && !bTrue))
	}
	if holdsWithAlternatives(factsAt(b), check) || everyEdgeInto(b, check) {
		return true, "reached only with a constant bool child that is true under isOrOpNode or false under isAndOpNode"
	}
	return false, ""
}

// ---- R-FOLDCONST --------------------------------------------------------------

// foldArgsAppended: acc is the loop-carried argument slice of a loop over all of root.children that appends
// children[i].node.value on every iteration, under kind(children[i].node) == constant, starting from a fresh
// empty slice; the call is reached over the loop's exit edge only.
func foldArgsAppended(k nodeKinds, acc *ssa.Phi, call *ssa.Call, isChildren func(ssa.Value) bool) (bool, string) {
	hdr := acc.Block()
	iff, okIf := hdr.Instrs[len(hdr.Instrs)-1].(*ssa.If)
	if !okIf {
		return false, "the argument slice is not built in a loop"
	}
	cmp, okCmp := iff.Cond.(*ssa.BinOp)
	if !okCmp || cmp.Op != token.LSS {
		return false, "the argument slice is not built in a loop over the children"
	}
	childrenVal, okl := lenArg(cmp.Y)
	if !okl || !isChildren(childrenVal) {
		return false, "the loop that builds the arguments does not range over root.children"
	}
	if h, okh := rangeIndexHeader(cmp.X, childrenVal); !okh || h != hdr {
		return false, "the loop that builds the arguments does not visit every child"
	}
	idx := cmp.X
	if !edgeDominates(hdr, 1, call.Block()) {
		return false, "the operator call is not dominated by the completion of the constant-check loop"
	}
	back := 0
	for i, e := range acc.Edges {
		pred := hdr.Preds[i]
		if !hdr.Dominates(pred) {
			ms, isMS := e.(*ssa.MakeSlice)
			if !isMS {
				return false, "the argument slice is not freshly made in the folding pass"
			}
			if n, okn := constInt(ms.Len); !okn || n != 0 {
				return false, "the argument slice does not start empty"
			}
			continue
		}
		back++
		app, okA := e.(*ssa.Call)
		if !okA || calleeFullName(&app.Call) != "builtin.append" || app.Call.Args[0] != ssa.Value(acc) {
			return false, "the loop can continue past a child without appending its value"
		}
		vs := variadicElems(app.Call.Args[1])
		if len(vs) != 1 {
			return false, "an iteration appends something other than one value"
		}
		nodeV, okv := loadOfField(vs[0], "node", "value")
		if !okv {
			return false, "the argument is not the child's value"
		}
		childV, okn := loadOfField(nodeV, "astNode", "node")
		if !okn {
			return false, "the argument is not the child's value"
		}
		caddr, okL := isLoad(childV)
		if !okL {
			return false, "the argument is not the child's value"
		}
		cia, okc := caddr.(*ssa.IndexAddr)
		if !okc || cia.Index != idx || !isChildren(cia.X) {
			return false, "argument i is not taken from child i"
		}
		constFact := false
		for _, f := range append(factsAt(app.Block()), factsAtEdgeTo(pred, hdr)...) {
			n, kc, isEq, ok := k.kindTest(f.Cond)
			if !ok || kc != k.constant || isEq != f.Truth {
				continue
			}
			if n == nodeV || sameValueShape(n, nodeV) {
				constFact = true
			}
			if base, okb := loadOfField(n, "astNode", "node"); okb && (base == childV || sameValueShape(base, childV)) {
				constFact = true
			}
		}
		if !constFact {
			return false, "the appended value is not dominated by the child's kind being constant"
		}
	}
	if back == 0 {
		return false, "the argument slice is not built in a loop"
	}
	return true, ""
}

func ruleFoldConst(w *World, r *Report, call *ssa.Call) {
	const rule = "R-FOLDCONST"
	r.Rule(rule, "the compile-time operator call executes only after a loop over all children that leaves at the first non-constant child; its arguments are the children's values in order; the absorption installs the deciding constant", 2)
	fn := call.Parent()
	name := w.Name(fn)
	k := loadNodeKinds(w)
	pos := w.InstrPos(call)
	if len(call.Call.Args) != 2 || len(fn.Params) != 2 {
		r.Unresolved(rule, "unexpected shape of the folding call")
		return
	}
	root := fn.Params[1]
	params := call.Call.Args[1]
	isChildren := func(v ssa.Value) bool {
		base, ok := loadOfField(v, "astNode", "children")
		return ok && (base == ssa.Value(root) || varRoot(base) == root)
	}
	checkAbsorption := func() {
		// the absorption installs the deciding constant
		EachInstr(fn, func(in ssa.Instruction) {
			st, ok := in.(*ssa.Store)
			if !ok {
				return
			}
			tn, fld, base, okf := fieldOf(st.Addr)
			if !okf || tn != "astNode" || fld != "node" || (base != ssa.Value(root) && varRoot(base) != root) {
				return
			}
			if ok, _ := absorptionGate(w, st.Block()); !ok {
				return
			}
			al, isAlloc := st.Val.(*ssa.Alloc)
			good := false
			if isAlloc {
				var flagOK, valOK bool
				for _, ref := range referrers(al) {
					fa, ok := ref.(*ssa.FieldAddr)
					if !ok {
						continue
					}
					for _, ref2 := range referrers(fa) {
						s2, ok := ref2.(*ssa.Store)
						if !ok || s2.Addr != ssa.Value(fa) {
							continue
						}
						switch fieldName(fa.X.Type(), fa.Field) {
						case "flag":
							if c, ok := constInt(s2.Val); ok && c == k.constant {
								flagOK = true
							}
						case "value":
							if ex, ok := unwrapIface(s2.Val).(*ssa.Extract); ok && ex.Index == 0 {
								if ta, ok := ex.Tuple.(*ssa.TypeAssert); ok {
									if _, okv := loadOfField(ta.X, "node", "value"); okv {
										valOK = true
									}
								}
							}
						}
					}
				}
				good = flagOK && valOK
			}
			r.Check(good, rule, w.InstrPos(st), name, "absorption: "+describe(st.Addr)+" = "+describe(st.Val), "installs a constant node holding the deciding child's bool value", "the absorption does not install the deciding constant")
		})
	}
	if acc, isPhi := params.(*ssa.Phi); isPhi {
		// the appended form: params = append(params, child.node.value) once per child, from an empty fresh slice
		ok, why := foldArgsAppended(k, acc, call, isChildren)
		r.Check(ok, rule, pos, name, describe(call), "arguments are exactly the values of all children, in order, each checked to be a constant (appended one per child to a fresh empty slice)", why)
		checkAbsorption()
		return
	}
	ms, ok := params.(*ssa.MakeSlice)
	if !ok {
		r.Fail(rule, pos, name, describe(call), "the argument slice is not freshly made in the folding pass")
		return
	}
	lenOK := false
	if x, ok := lenArg(ms.Len); ok && isChildren(x) {
		lenOK = true
	}
	// find the filling store: params[idx] = children[idx].node.value under kind == constant
	found := false
	why := "no loop over root.children that fills the argument slice from constant children only"
	EachInstr(fn, func(in ssa.Instruction) {
		st, ok := in.(*ssa.Store)
		if !ok {
			return
		}
		ia, ok := st.Addr.(*ssa.IndexAddr)
		if !ok || ia.X != ssa.Value(ms) {
			return
		}
		// index is a range index over root.children
		var childrenVal ssa.Value
		var hdrBlock *ssa.BasicBlock
		switch ix := ia.Index.(type) {
		case *ssa.BinOp:
			hdrBlock = ix.Block() // range loop: the incremented hidden index lives in the header
		case *ssa.Phi:
			hdrBlock = ix.Block() // counting loop: the counter itself
		default:
			return
		}
		iff, okIf := hdrBlock.Instrs[len(hdrBlock.Instrs)-1].(*ssa.If)
		if !okIf {
			return
		}
		cmp, okCmp := iff.Cond.(*ssa.BinOp)
		if !okCmp {
			return
		}
		if x, ok := lenArg(cmp.Y); ok && isChildren(x) {
			childrenVal = x
		} else if ok && x == ssa.Value(ms) && lenOK {
			// for i := range params, with params = make([]Value, len(root.children)): the same index range
			childrenVal, _ = lenArg(ms.Len)
		}
		if childrenVal == nil {
			return
		}
		hdr, okHdr := rangeIndexHeader(ia.Index, childrenVal)
		if !okHdr {
			return
		}
		// value stored: children[idx].node.value
		nodeV, okv := loadOfField(st.Val, "node", "value")
		if !okv {
			why = "the argument is not the child's value"
			return
		}
		childV, okn := loadOfField(nodeV, "astNode", "node")
		if !okn {
			return
		}
		caddr, okl := isLoad(childV)
		if !okl {
			return
		}
		cia, okc := caddr.(*ssa.IndexAddr)
		if !okc || cia.Index != ia.Index || !isChildren(cia.X) {
			why = "argument i is not taken from child i"
			return
		}
		// dominated by kind(child.node) == constant
		constFact := false
		for _, f := range factsAt(st.Block()) {
			n, kc, isEq, ok := k.kindTest(f.Cond)
			if !ok || kc != k.constant || isEq != f.Truth {
				continue
			}
			if base, okb := loadOfField(n, "astNode", "node"); okb && (base == childV || sameValueShape(base, childV)) {
				constFact = true
			}
		}
		if !constFact {
			why = "the argument store is not dominated by the child's kind being constant"
			return
		}
		// the loop continues only through the store: from the body entry, the header is reachable only via the store's block
		body := hdr.Succs[0]
		if reachableAvoiding(body, hdr, func(b *ssa.BasicBlock) bool { return b == st.Block() }) && body != st.Block() {
			why = "the loop can continue past a child without checking/storing it"
			return
		}
		// the call is reached only over the loop's exit edge
		if !edgeDominates(hdr, 1, call.Block()) {
			why = "the operator call is not dominated by the completion of the constant-check loop"
			return
		}
		found = true
	})
	r.Check(found && lenOK, rule, pos, name, describe(call), "argument slice has len(root.children) elements, element i is child i's value stored under kind == constant; the loop returns at the first non-constant child and the call follows its exit edge", why)

	checkAbsorption()

}

// ---- no failure channel -------------------------------------------------------

func ruleFoldNoFail(w *World, r *Report) {
	const rule = "R-FOLDNOFAIL"
	r.Rule(rule, "the optimizer function type has no result and the optimization passes contain no panic: a failing fold has no way to fail Compile", 2)
	n := w.NamedType("optimizer")
	if n == nil {
		r.Unresolved(rule, "type optimizer not found")
	} else if sig, ok := n.Underlying().(*types.Signature); ok {
		r.Check(sig.Results().Len() == 0, rule, w.Pos(n.Obj().Pos()), "optimizer", "type optimizer "+types.TypeString(sig, relTo), "no result: an optimizer cannot report failure", "optimizers can now return something (an error channel into Compile)")
	}
	opt := w.MustFn(r, rule, "optimize")
	if opt == nil {
		return
	}
	set := w.Closure(w.VTA, []*ssa.Function{opt}, true)
	panics := 0
	for _, fn := range w.SortedFuncs(set) {
		if _, isOp := isBuiltinOperatorFunc(w, fn); isOp {
			continue
		}
		EachInstr(fn, func(in ssa.Instruction) {
			if p, ok := in.(*ssa.Panic); ok {
				panics++
				r.Fail(rule, w.InstrPos(p), w.Name(fn), "panic("+describe(p.X)+")", "an explicit panic inside an optimization pass aborts Compile")
			}
		})
	}
	if panics == 0 {
		r.OK(rule, w.Pos(opt.Pos()), "optimize", fmt.Sprintf("%d functions reachable from optimize", len(set)), "no explicit panic")
	}
	if len(set) < 8 {
		r.Unresolved(rule, "the optimizer closure shrank: the optimizerMap dispatch is no longer resolved")
	}
}

func isBuiltinOperatorFunc(w *World, fn *ssa.Function) (string, bool) {
	fns, _, err := builtinOpFuncs(w)
	if err != nil {
		return "", false
	}
	if impls, ok := fns[fn]; ok && len(impls) > 0 {
		return impls[0].Key, true
	}
	return "", false
}

var c10Witnesses = []Witness{
	{Name: "benign-fold-arguments-appended", Rule: "R-FOLDCONST", Benign: true, Edits: []Edit{
		{File: "compiler.go", Old: "\tparams := make([]Value, len(root.children))\n\tfor i, child := range root.children {\n\t\tif child.node.getNodeType() != constant {\n\t\t\treturn\n\t\t}\n\t\tparams[i] = child.node.value\n\t}\n", New: "\tparams := make([]Value, 0, len(root.children))\n\tfor _, child := range root.children {\n\t\tif child.node.getNodeType() != constant {\n\t\t\treturn\n\t\t}\n\t\tparams = append(params, child.node.value)\n\t}\n"}}},
	{Name: "appended-fold-arguments-skip-non-constants", Rule: "R-FOLDCONST", Edits: []Edit{
		{File: "compiler.go", Old: "\tparams := make([]Value, len(root.children))\n\tfor i, child := range root.children {\n\t\tif child.node.getNodeType() != constant {\n\t\t\treturn\n\t\t}\n\t\tparams[i] = child.node.value\n\t}\n", New: "\tparams := make([]Value, 0, len(root.children))\n\tfor _, child := range root.children {\n\t\tif child.node.getNodeType() != constant {\n\t\t\tcontinue\n\t\t}\n\t\tparams = append(params, child.node.value)\n\t}\n"}}},
	{Name: "appended-fold-arguments-unchecked", Rule: "R-FOLDCONST", Edits: []Edit{
		{File: "compiler.go", Old: "\tparams := make([]Value, len(root.children))\n\tfor i, child := range root.children {\n\t\tif child.node.getNodeType() != constant {\n\t\t\treturn\n\t\t}\n\t\tparams[i] = child.node.value\n\t}\n", New: "\tparams := make([]Value, 0, len(root.children))\n\tfor _, child := range root.children {\n\t\tparams = append(params, child.node.value)\n\t}\n"}}},
	{Name: "fold-calls-node-operator-ungated", Rule: "R-FOLDGATE", Edits: []Edit{
		{File: "compiler.go", Old: "	stateless, fn := isStatelessOp(cc, n)\n	if !stateless {\n		return\n	}\n", New: "	stateless, fn := isStatelessOp(cc, n)\n	if !stateless {\n		if n.operator == nil || len(root.children) != 0 {\n			return\n		}\n		fn = n.operator\n	}\n"}}},
	{Name: "check-evaluates-operator-for-arity", Rule: "R-FOLDGATE", Edits: []Edit{
		{File: "parser.go", Old: "	op, exist := p.getOperator(car.val)\n	if !exist {\n		return nil, p.unknownTokenError(car)\n	}\n", New: "	op, exist := p.getOperator(car.val)\n	if !exist {\n		return nil, p.unknownTokenError(car)\n	}\n	if len(children) == 0 {\n		if _, err := op(nil, nil); err == nil {\n			return nil, p.paramsCountErr(1, 0, car)\n		}\n	}\n"}}},
	{Name: "every-builtin-name-approved", Rule: "R-STATELESS", Edits: []Edit{
		{File: "compiler.go", Old: "	for _, so := range builtinStatelessOperations {\n		if so == op {\n			return true, builtinOperators[op]\n		}\n	}\n", New: "	if fn, ok := builtinOperators[op]; ok {\n		return true, fn\n	}\n"}}},
	{Name: "registered-op-approved-without-list", Rule: "R-STATELESS", Edits: []Edit{
		{File: "compiler.go", Old: "	for _, so := range c.StatelessOperators {\n		if so == op {\n			if fn := c.OperatorMap[op]; fn != nil {\n				return true, fn\n			}\n			break\n		}\n	}\n", New: "	if fn := c.OperatorMap[op]; fn != nil && len(c.StatelessOperators) != 0 {\n		return true, fn\n	}\n"}}},
	{Name: "stray-stateless-name", Rule: "R-STATELESS-TABLE", Edits: []Edit{
		{File: "operator.go", Old: "		\"==\", \"&&\", \"||\",\n	}", New: "		\"==\", \"&&\", \"||\", \"t_datetime\",\n	}"}}},
	{Name: "fold-on-error-with-zero-value", Rule: "R-FOLDOK", Edits: []Edit{
		{File: "compiler.go", Old: "	res, err := fn(nil, params)\n	if err != nil {\n		return\n	}\n", New: "	res, err := fn(nil, params)\n	if err != nil && res == nil {\n		return\n	}\n"}}},
	{Name: "fold-error-panics", Rule: "R-FOLDOK", Edits: []Edit{
		{File: "compiler.go", Old: "	res, err := fn(nil, params)\n	if err != nil {\n		return\n	}\n", New: "	res, err := fn(nil, params)\n	if err != nil {\n		panic(err)\n	}\n"}}},
	{Name: "last-child-not-checked-for-constant", Rule: "R-FOLDCONST", Edits: []Edit{
		{File: "compiler.go", Old: "	for i, child := range root.children {\n		if child.node.getNodeType() != constant {\n			return\n		}\n		params[i] = child.node.value\n	}", New: "	for i, child := range root.children {\n		if child.node.getNodeType() != constant && i != len(root.children)-1 {\n			return\n		}\n		params[i] = child.node.value\n	}"}}},
	{Name: "variable-children-skipped-not-rejected", Rule: "R-FOLDCONST", Edits: []Edit{
		{File: "compiler.go", Old: "	for i, child := range root.children {\n		if child.node.getNodeType() != constant {\n			return\n		}\n		params[i] = child.node.value\n	}", New: "	for i, child := range root.children {\n		if child.node.getNodeType() == variable {\n			return\n		}\n		params[i] = child.node.value\n	}"}}},
	{Name: "absorption-polarity-swapped", Rule: "R-FOLDOK", Edits: []Edit{
		{File: "compiler.go", Old: "			if (b && isOrOpNode(n)) || (!b && isAndOpNode(n)) {", New: "			if (b && isAndOpNode(n)) || (!b && isOrOpNode(n)) {"}}},
	{Name: "optimizer-panics-on-bad-tree", Rule: "R-FOLDNOFAIL", Edits: []Edit{
		{File: "compiler.go", Old: "	n := root.node\n	if (n.flag&nodeTypeMask) != operator || len(root.children) != 2 {\n		return\n	}", New: "	n := root.node\n	if n == nil {\n		panic(\"nil node\")\n	}\n	if (n.flag&nodeTypeMask) != operator || len(root.children) != 2 {\n		return\n	}"}}},
	{Name: "benign-fold-gate-positive-form", Benign: true, Edits: []Edit{
		{File: "compiler.go", Old: "	res, err := fn(nil, params)\n	if err != nil {\n		return\n	}\n	root.children = nil\n	root.node = &node{\n		flag:  constant,\n		value: res,\n	}\n	return\n}", New: "	if res, err := fn(nil, params); err == nil {\n		root.children = nil\n		root.node = &node{\n			flag:  constant,\n			value: res,\n		}\n	}\n}"}}},
}
