package main

// C01 — Eval computes the documented semantics: error identity, error checks,
// name-resolution order, dispatch integrity (kinds, bits, polarity tables).

import (
	"fmt"
	"go/ast"
	"go/token"
	"go/types"
	"sort"
	"strings"

	"golang.org/x/tools/go/ssa"
)

func init() {
	register(&Property{
		ID:    "C01",
		Level: "other",
		Explanation: "The statement has one clause static analysis decides completely and several structural necessary conditions; these are decided, the value semantics of the stack machine is not. " +
			"(R-ERRID) value-origin analysis of every error that can reach a return of Eval, TryEval and their static callees: the origins are nil, result #1 of VariableFetcher.Get, or result #1 of a dynamic Operator call — never a fresh or wrapped error; EvalBool/TryEvalBool pass that error through or create one only on the failed-bool-assertion edge (ErrDNE under res == DNE); eval.Eval passes through Compile's or (*Expr).Eval's error: 'the error is the very one the fetcher or operator returned'. " +
			"(R-ERRCHK) every call in Eval/TryEval that yields an error is followed by a nil test of that error before the value result is used, and the non-nil edge returns that error: a dropped check would continue with a value where the semantics demands the error. " +
			"(R-LEAFORDER) the leaf parsers are installed with parseConst before parseVariable before parseUnknownVariable and buildLeafNode is a first-match loop in index order: constants shadow variables shadow undefined variables. " +
			"(R-KIND) every writer of node.flag / node.value keeps the invariant 'kind variable/operator/fastOperator ⇒ value is a string, cond ⇒ keyword, event ⇒ LoopEventData; a fast operator has exactly two leaf children; or-ing flag bits never touches the kind bits'; (R-KINDSWITCH) every switch over a node kind in Eval, TryEval, calAndSetNodes, calAndSetStackSize covers all kinds that can reach it; (R-BITS, R-PAIR, R-PAIRBOOL, R-SCJUMP) flag bit groups are disjoint and the four places that pair and/or with a polarity agree, for every alias. " +
			"(R-STEPRES) per arm of the main loop the pushed value is exactly the node literal / result #0 of the fetch of that very node / result #0 of the node's own operator applied in that arm, cond and event arms push nothing, the value lands in os[osTop+1] and osTop advances by one, non-error returns yield the pushed value or os[0]; (R-STEPARGS) the operator arm pops exactly childCnt and hands the operator either the two-slot buffer filled from os[osTop-childCnt+1], os[osTop-childCnt+2] (only under childCnt == 2) or a fresh childCnt-long copy of os[osTop-childCnt+1:]. " +
			"(R-STACKREC) calAndSetStackSize: every arm builds on the same predecessor (i-1, or the `if` node when node i-1 is `fi`) with the evaluator's per-kind stack effect as delta; (R-SCFLAGS) the stores of calAndSetShortCircuit are gated only by the parent and the position, never by the node's own kind or value; (R-SCCLIMB) an ancestor's target is taken over only under (ancestor.flag & flag) == flag, loops run in the direction that makes read targets final; (R-FASTLAYOUT) every site agrees that a fast operator is followed by two inlined operands; (R-KWTYPE) marker comparisons use the stored dynamic type. " +
			"(R-BOOLARITY) an and/or node is never built with fewer than two operands (D14). NOT decided: the contents of scIdx for every tree shape (how far the climbing loop goes), hence value equality with the reference semantics for all programs; operator algebra is C17-C19. Round 2: (R-NODEFRESH) every store into astNode.node stores a record allocated right there, stored once and kept nowhere else — the compile-time tables are written into the node records, one per position; (R-SCMUST) a step result is pushed only if it is not a bool or its deciding flag is not set — a deciding operand always takes the short-circuit jump; R-STACKMAX, R-STACKCLASS, R-ORDER shared from C09.",
		Run:       runC01,
		Witnesses: c01Witnesses,
	})
}

func runC01(w *World, r *Report) {
	// a value is returned only if the operand stack is large enough and the limits were checked on the final tree
	ruleStackMax(w, r)
	ruleStackClass(w, r)
	ruleOrder(w, r)
	ruleNodeFresh(w, r)
	ruleErrID(w, r)
	ruleErrChk(w, r)
	// an error found non-nil is never turned into success on the way out (parser, compiler, EvalBool, …)
	ruleErrDrop(w, r, c06Closure(w, r, "R-ERRDROP"))
	ruleLeafOrder(w, r)
	ruleKind(w, r)
	ruleKindSwitch(w, r)
	ruleBits(w, r)
	rulePair(w, r)
	rulePairBool(w, r)
	ruleStepArgs(w, r, ruleStepRes(w, r, "(*Expr).Eval"))
	ruleStackRec(w, r)
	ruleScFlags(w, r)
	ruleScClimb(w, r)
	ruleFastLayout(w, r)
	ruleKwType(w, r)
	ruleBoolArity(w, r)
	// variables read the value bound to their name (C11) and the built-in operators compute their
	// documented functions (C17-C19): both are part of "the value the documented semantics assigns"
	runC11(w, r)
	ruleOvSym(w, r)
	ruleInSets(w, r)
	ruleSetShape(w, r)
	runC18(w, r)
	runC19(w, r)
	if fn := w.Fn("(*Expr).Eval"); fn != nil {
		if l, _ := recoverEvalLoop(w, fn); l != nil {
			ruleScJump(w, r, l)
			ruleScMust(w, r, l)
		}
	}
}

// ---- R-ERRID ------------------------------------------------------------------

// errOrigins computes where the value v (of type error) can come from.
func errOrigins(w *World, v ssa.Value, seen map[ssa.Value]bool, out map[string]ssa.Value, depth int) {
	if v == nil || seen[v] || depth > 12 {
		return
	}
	seen[v] = true
	if isNilConst(v) {
		out["nil"] = v
		return
	}
	switch x := v.(type) {
	case *ssa.Phi:
		for _, e := range x.Edges {
			errOrigins(w, e, seen, out, depth+1)
		}
	case *ssa.Extract:
		c, ok := x.Tuple.(*ssa.Call)
		if !ok {
			out["other:"+describe(v)] = v
			return
		}
		errOfCall(w, c, x.Index, seen, out, depth)
	case *ssa.Call:
		errOfCall(w, x, 0, seen, out, depth)
	case *ssa.UnOp:
		if a, ok := isLoad(x); ok {
			if g, ok := a.(*ssa.Global); ok {
				out["global:"+g.Name()] = v
				return
			}
		}
		out["other:"+describe(v)] = v
	case *ssa.MakeInterface:
		out["fresh:"+describe(x.X)] = v
	case *ssa.Parameter:
		out["param:"+x.Name()] = v
	default:
		out["other:"+describe(v)] = v
	}
}

func errOfCall(w *World, c *ssa.Call, idx int, seen map[ssa.Value]bool, out map[string]ssa.Value, depth int) {
	cc := &c.Call
	switch {
	case isGetInvoke(cc):
		out["fetcher"] = c
	case cc.IsInvoke():
		out["invoke:"+cc.Method.Name()] = c
	case isOperatorCall(w, cc):
		out["operator"] = c
	case isDynamicCall(cc):
		out["dynamic:"+describe(cc.Value)] = c
	default:
		callee := cc.StaticCallee()
		if callee != nil && w.InPkg(callee) {
			for _, ret := range allReturns(callee) {
				if idx < len(ret.Results) {
					errOrigins(w, ret.Results[idx], seen, out, depth+1)
				}
			}
			return
		}
		out["new:"+calleeFullName(cc)] = c
	}
}

func originKeys(m map[string]ssa.Value) []string {
	var out []string
	for k := range m {
		out = append(out, k)
	}
	sort.Strings(out)
	return out
}

func ruleErrID(w *World, r *Report) {
	const rule = "R-ERRID"
	r.Rule(rule, "the origin set of every error that can reach a return of the evaluation entry points is {nil, fetcher's error, operator's error}; the Bool wrappers add a fresh error only on the failed assertion edge", 8)
	allowed := map[string]bool{"nil": true, "fetcher": true, "operator": true}
	for _, name := range []string{"(*Expr).Eval", "(*Expr).TryEval"} {
		fn := w.MustFn(r, rule, name)
		if fn == nil {
			continue
		}
		for _, f := range w.SortedFuncs(staticClosure(w, fn)) {
			sig := f.Signature.Results()
			if sig.Len() == 0 || !isErrorType(sig.At(sig.Len()-1).Type()) {
				continue
			}
			for _, ret := range allReturns(f) {
				origins := map[string]ssa.Value{}
				errOrigins(w, ret.Results[len(ret.Results)-1], map[ssa.Value]bool{}, origins, 0)
				var bad []string
				for k := range origins {
					if !allowed[k] {
						bad = append(bad, k)
					}
				}
				sort.Strings(bad)
				r.Check(len(bad) == 0, rule, w.InstrPos(ret), w.Name(f), fmt.Sprintf("return …, %s  origins %v", describe(ret.Results[len(ret.Results)-1]), originKeys(origins)),
					"only nil, the fetcher's own error or the operator's own error", "an error that is not the very one the fetcher or operator returned can surface: "+strings.Join(bad, ", "))
			}
		}
	}
	// Bool wrappers
	for _, c := range []struct{ name, inner string }{{"(*Expr).EvalBool", "Eval"}, {"(*Expr).TryEvalBool", "TryEval"}} {
		fn := w.MustFn(r, rule, c.name)
		if fn == nil {
			continue
		}
		for _, ret := range allReturns(fn) {
			ev := ret.Results[1]
			pos := w.InstrPos(ret)
			what := "return …, " + describe(ev)
			if isNilConst(ev) {
				r.OK(rule, pos, c.name, what, "success")
				continue
			}
			if ex, ok := ev.(*ssa.Extract); ok && ex.Index == 1 {
				if call, ok := ex.Tuple.(*ssa.Call); ok && call.Call.StaticCallee() != nil && nm(call.Call.StaticCallee()) == c.inner {
					r.OK(rule, pos, c.name, what, "the error of "+c.inner+" passed through unchanged")
					continue
				}
			}
			if a, ok := isLoad(ev); ok {
				if g, ok := a.(*ssa.Global); ok && nm(g) == "ErrDNE" && c.inner == "TryEval" {
					r.OK(rule, pos, c.name, what, "ErrDNE (gate checked by C05 R-DNEBOOL)")
					continue
				}
			}
			// fresh error only on the failed assertion edge
			fresh := false
			if call, ok := ev.(*ssa.Call); ok && (calleeFullName(&call.Call) == "errors.New" || calleeFullName(&call.Call) == "fmt.Errorf") {
				for _, f := range factsAt(ret.Block()) {
					if ex, ok := f.Cond.(*ssa.Extract); ok && ex.Index == 1 && !f.Truth {
						if ta, ok := ex.Tuple.(*ssa.TypeAssert); ok {
							if bt, ok := ta.AssertedType.Underlying().(*types.Basic); ok && bt.Kind() == types.Bool {
								fresh = true
							}
						}
					}
				}
			}
			r.Check(fresh, rule, pos, c.name, what, "a result-type error, only when the result is not a bool", "an error other than the evaluation's own is returned outside the failed-bool-assertion edge")
		}
	}
	if fn := w.MustFn(r, rule, "Eval"); fn != nil {
		for _, ret := range allReturns(fn) {
			ev := ret.Results[1]
			ok := false
			if ex, isEx := ev.(*ssa.Extract); isEx && ex.Index == 1 {
				if call, isCall := ex.Tuple.(*ssa.Call); isCall && call.Call.StaticCallee() != nil {
					n := nm(call.Call.StaticCallee())
					ok = n == "Compile" || n == "Eval"
				}
			}
			r.Check(ok, rule, w.InstrPos(ret), "Eval", "return …, "+describe(ev), "the error of Compile or of (*Expr).Eval passed through", "the convenience Eval alters the error")
		}
	}
}

func isErrorType(t types.Type) bool {
	return types.Identical(t, types.Universe.Lookup("error").Type())
}

// ---- R-ERRCHK -----------------------------------------------------------------

func ruleErrChk(w *World, r *Report) {
	const rule = "R-ERRCHK"
	r.Rule(rule, "in Eval and TryEval every call yielding an error has that error compared with nil before its value result is used; the non-nil edge returns that error", 10)
	for _, name := range []string{"(*Expr).Eval", "(*Expr).TryEval"} {
		fn := w.MustFn(r, rule, name)
		if fn == nil {
			continue
		}
		EachInstr(fn, func(in ssa.Instruction) {
			c, ok := in.(*ssa.Call)
			if !ok {
				return
			}
			tup, ok := c.Type().(*types.Tuple)
			if !ok || tup.Len() != 2 || !isErrorType(tup.At(1).Type()) {
				return
			}
			var val, errV *ssa.Extract
			for _, ref := range referrers(c) {
				if ex, ok := ref.(*ssa.Extract); ok {
					if ex.Index == 0 {
						val = ex
					} else {
						errV = ex
					}
				}
			}
			pos := w.InstrPos(c)
			what := describe(c)
			if errV == nil {
				r.Fail(rule, pos, name, what, "the error result is discarded")
				return
			}
			// the nil test
			var test *ssa.If
			nilEdge := -1
			for _, ref := range referrers(errV) {
				bo, ok := ref.(*ssa.BinOp)
				if !ok {
					continue
				}
				x, isEq, okn := nilCompare(bo)
				if !okn || x != ssa.Value(errV) {
					continue
				}
				for _, ref2 := range referrers(bo) {
					if iff, ok := ref2.(*ssa.If); ok {
						test = iff
						if !isEq {
							nilEdge = 1
						} else {
							nilEdge = 0
						}
					}
				}
			}
			// several arms share one test: the error and the value reach a join together (same incoming edge of two
			// phis of one block) and the joined error is what is tested and returned
			carrierE := ssa.Value(errV)
			var carrierV ssa.Value
			if val != nil {
				carrierV = val
			}
			if test == nil {
				for _, ref := range referrers(errV) {
					ephi, ok := ref.(*ssa.Phi)
					if !ok {
						continue
					}
					var t2 *ssa.If
					e2 := -1
					for _, ref2 := range referrers(ephi) {
						bo, ok := ref2.(*ssa.BinOp)
						if !ok || bo.Block() != ephi.Block() {
							continue
						}
						x, isEq, okn := nilCompare(bo)
						if !okn || x != ssa.Value(ephi) {
							continue
						}
						for _, ref3 := range referrers(bo) {
							if iff, ok := ref3.(*ssa.If); ok && iff.Block() == ephi.Block() {
								t2 = iff
								e2 = 0
								if !isEq {
									e2 = 1
								}
							}
						}
					}
					if t2 == nil {
						continue
					}
					// the value travels over the same edges into a phi of the same block, and nowhere else
					okV := true
					var vphi *ssa.Phi
					if val != nil {
						for _, vr := range referrers(val) {
							p2, isPhi := vr.(*ssa.Phi)
							if !isPhi || p2.Block() != ephi.Block() {
								okV = false
								continue
							}
							vphi = p2
						}
						if vphi != nil {
							for i := range ephi.Edges {
								if (ephi.Edges[i] == ssa.Value(errV)) != (vphi.Edges[i] == ssa.Value(val)) {
									okV = false
								}
							}
						}
					}
					if okV {
						test, nilEdge, carrierE = t2, e2, ephi
						if vphi != nil {
							carrierV = vphi
						}
					}
				}
			}
			if test == nil {
				r.Fail(rule, pos, name, what, "the error is never compared with nil: evaluation continues with a value where the semantics demands the error")
				return
			}
			// non-nil edge returns the error
			eb := test.Block().Succs[1-nilEdge]
			ret := blockReturn(eb)
			retOK := ret != nil && len(ret.Results) == 2 && ret.Results[1] == carrierE
			if !retOK {
				r.Fail(rule, w.InstrPos(test), name, what, "the non-nil edge does not immediately return that error")
				return
			}
			// uses of the value
			bad := ""
			if carrierV != nil {
				for _, ref := range referrers(carrierV) {
					if ref == ssa.Instruction(ret) {
						continue
					}
					if phi, ok := ref.(*ssa.Phi); ok {
						for i, e := range phi.Edges {
							if e != carrierV {
								continue
							}
							pred := phi.Block().Preds[i]
							viaNilEdge := pred == test.Block() && test.Block().Succs[nilEdge] == phi.Block()
							if !viaNilEdge && !edgeDominates(test.Block(), nilEdge, pred) {
								bad = "used by " + phi.Name() + " on a path that did not pass the nil test"
							}
						}
						continue
					}
					if !edgeDominates(test.Block(), nilEdge, ref.Block()) {
						// parking the value in a call-local buffer slot before the test is harmless:
						// the error edge returns without reading it
						if st, ok := ref.(*ssa.Store); ok && st.Val == carrierV && ref.Block() == test.Block() {
							if ia, ok := st.Addr.(*ssa.IndexAddr); ok {
								if _, isAlloc := ia.X.(*ssa.Alloc); isAlloc {
									continue
								}
							}
						}
						bad = "used at " + w.InstrPos(ref) + " without passing the nil test"
					}
				}
			}
			r.Check(bad == "", rule, pos, name, what, "error tested in "+w.InstrPos(test)+"; non-nil edge returns it; the value is used only on the nil edge", bad)
		})
	}
}

// ---- R-LEAFORDER ----------------------------------------------------------------

func ruleLeafOrder(w *World, r *Report) {
	const rule = "R-LEAFORDER"
	r.Rule(rule, "leaf parsers are installed in the order const < variable < undefined variable, and buildLeafNode returns the first parser's answer in index order", 2)
	fn := w.MustFn(r, rule, "(*parser).setLeafNodeParsers")
	if fn != nil {
		order := map[string]int64{}
		EachInstr(fn, func(in ssa.Instruction) {
			st, ok := in.(*ssa.Store)
			if !ok {
				return
			}
			ia, ok := st.Addr.(*ssa.IndexAddr)
			if !ok {
				return
			}
			idx, ok := constInt(ia.Index)
			if !ok {
				return
			}
			mc, ok := st.Val.(*ssa.MakeClosure)
			if !ok {
				return
			}
			f := mc.Fn.(*ssa.Function)
			if obj := f.Object(); obj != nil {
				order[nm(obj)] = idx
			} else {
				order[strings.TrimSuffix(f.Name(), "$bound")] = idx
			}
		})
		c, okc := order["parseConst"]
		v, okv := order["parseVariable"]
		u, oku := order["parseUnknownVariable"]
		r.Check(okc && okv && oku && c < v && v < u, rule, w.Pos(fn.Pos()), w.Name(fn), fmt.Sprintf("positions: parseConst=%d parseVariable=%d parseUnknownVariable=%d", c, v, u),
			"const > variable > undefined variable", "the resolution order of a name that is both a constant and a variable (or registered and undefined) changed")
		// the list that is installed starts with that literal (appends only add at the end)
	}
	bl := w.MustFn(r, rule, "(*parser).buildLeafNode")
	if bl == nil {
		return
	}
	// a range-index loop over p.leafNodeParser that calls element i and returns at the first non-nil ast or err
	ok := false
	why := "no first-match loop over p.leafNodeParser in index order"
	EachInstr(bl, func(in ssa.Instruction) {
		c, isCall := in.(*ssa.Call)
		if !isCall || !isDynamicCall(&c.Call) {
			return
		}
		addr, isLd := isLoad(c.Call.Value)
		if !isLd {
			return
		}
		ia, isIA := addr.(*ssa.IndexAddr)
		if !isIA {
			return
		}
		base, isField := loadOfField(ia.X, "parser", "leafNodeParser")
		if !isField || base != ssa.Value(bl.Params[0]) {
			return
		}
		hdr, isRange := rangeIndexHeader(ia.Index, ia.X)
		if !isRange {
			why = "the loop is not a forward range over the parser list"
			return
		}
		// the loop continues only if both results are nil
		var astV, errV ssa.Value
		for _, ref := range referrers(c) {
			if ex, isEx := ref.(*ssa.Extract); isEx {
				if ex.Index == 0 {
					astV = ex
				} else {
					errV = ex
				}
			}
		}
		contOK := true
		for i, p := range hdr.Preds {
			_ = i
			if !hdr.Dominates(p) {
				continue // loop entry
			}
			var astNil, errNil bool
			facts := append(factsAt(p), factsAtEdgeTo(p, hdr)...)
			for _, f := range facts {
				x, isNil, okn := factIsNil(f)
				if !okn {
					continue
				}
				if x == astV && isNil {
					astNil = true
				}
				if x == errV && isNil {
					errNil = true
				}
			}
			if !astNil || !errNil {
				contOK = false
			}
		}
		if !contOK {
			why = "the loop can continue although a parser answered (later parsers would override earlier ones)"
			return
		}
		ok = true
	})
	r.Check(ok, rule, w.Pos(bl.Pos()), w.Name(bl), "first-match loop over p.leafNodeParser", "forward range; continues only while both ast and err are nil", why)
}

// ---- R-KIND -------------------------------------------------------------------

func ruleKind(w *World, r *Report) {
	const rule = "R-KIND"
	r.Rule(rule, "every writer of node.flag / node.value / node.operator keeps the kind invariants", 14)
	k := loadNodeKinds(w)
	if !k.ok {
		r.Unresolved(rule, "node kind constants not found")
		return
	}
	scMask, _ := w.ConstInt("scMask")
	pMask, _ := w.ConstInt("parentOpMask")
	nonKind := scMask | pMask
	for _, fn := range w.Funcs {
		EachInstr(fn, func(in ssa.Instruction) {
			st, ok := in.(*ssa.Store)
			if !ok {
				return
			}
			tn, fld, base, okf := fieldOf(st.Addr)
			if !okf || tn != "node" {
				return
			}
			pos := w.InstrPos(st)
			what := describe(st.Addr) + " = " + describe(st.Val)
			name := w.Name(fn)
			al, isLit := base.(*ssa.Alloc)
			switch fld {
			case "flag":
				if c, okc := constInt(st.Val); okc && isLit {
					// literal with a constant kind: check the value field of the same literal
					kindName, known := k.byValue[c&k.mask]
					if !known || c&^k.mask != 0 {
						r.Fail(rule, pos, name, what, "node literal with an unknown kind or extra bits")
						return
					}
					vt, found := literalFieldStaticType(al, "value")
					okType := false
					want := ""
					switch kindName {
					case "variable", "operator", "fastOperator":
						want = "string"
						okType = found && isStringLike(vt)
					case "cond":
						want = "keyword or string"
						okType = found && isStringLike(vt)
					case "event":
						want = "LoopEventData"
						okType = found && typeNameOf(vt) == "LoopEventData"
					case "constant":
						want = "any (may be filled in later)"
						okType = true
					}
					vts := "<unset>"
					if found {
						vts = types.TypeString(vt, relTo)
					}
					r.Check(okType, rule, pos, name, fmt.Sprintf("node literal kind=%s value:%s", kindName, vts), "value type matches the kind ("+want+")", "a "+kindName+" node must carry a "+want+" value: the evaluator asserts it without checking")
					return
				}
				// flag | bits
				if bo, okb := st.Val.(*ssa.BinOp); okb && bo.Op == token.OR {
					x, y := bo.X, bo.Y
					// fastOperator | (flag & otherPartMask), or fastOperator | (flag &^ kindMask); the constant on either side
					fx, fy := x, y
					if _, isC := fy.(*ssa.Const); isC {
						fx, fy = fy, fx
					}
					if cx, okc := constInt(fx); okc {
						if and, oka := fy.(*ssa.BinOp); oka && (and.Op == token.AND || and.Op == token.AND_NOT) {
							m, okm := constInt(and.Y)
							if and.Op == token.AND_NOT {
								m = 0xFF &^ m
							}
							if okm && m&k.mask == 0 && cx == k.fastOperator {
								ok, why := fastRewriteGate(w, k, st)
								r.Check(ok, rule, pos, name, what, "operator -> fastOperator rewrite, gated by kind == operator, exactly two children, each a constant or variable", why)
								return
							}
						}
					}
					if _, okf := loadOfField(x, "node", "flag"); okf {
						bits, okBits := mayBits(y, 0)
						r.Check(okBits && bits&k.mask == 0 && bits&^nonKind == 0, rule, pos, name, what, fmt.Sprintf("or-ed bits %#x lie outside the kind bits", bits), "or-ing these bits into the flag can change the node kind")
						return
					}
				}
				r.Fail(rule, pos, name, what, "unrecognised writer of node.flag")
			case "value":
				if isLit {
					// part of a literal: checked with the flag store; a later store to a literal of kind constant is fine
					if kc, ok := literalKind(al); ok && (kc&k.mask) == k.constant {
						r.OK(rule, pos, name, what, "value of a constant node")
						return
					}
					if _, ok := literalKind(al); ok {
						return // counted with the literal's flag store
					}
				}
				r.Fail(rule, pos, name, what, "the value of an existing node is overwritten: its type may no longer match its kind")
			case "operator":
				if isLit {
					return
				}
				// only the event wrapper may replace an operator, under kind operator/fastOperator of the same node
				poss := k.kindsUnionAt(st.Block(), func(n ssa.Value) bool { return n == base || sameValueShape(n, base) })
				okGate := poss != nil && len(poss) >= 1
				for kc := range poss {
					if kc != k.operator && kc != k.fastOperator {
						okGate = false
					}
				}
				r.Check(okGate, rule, pos, name, what, "operator replaced by its event wrapper, for an operator/fastOperator node", "a node's operator is replaced outside the event-wrapper site")
			}
		})
	}
}

// literalFieldStaticType finds the static type of the value stored into a
// field of a composite-literal allocation (the type before boxing).
func literalFieldStaticType(al *ssa.Alloc, field string) (types.Type, bool) {
	for _, ref := range referrers(al) {
		fa, ok := ref.(*ssa.FieldAddr)
		if !ok || fieldName(fa.X.Type(), fa.Field) != field {
			continue
		}
		for _, ref2 := range referrers(fa) {
			if st, ok := ref2.(*ssa.Store); ok && st.Addr == ssa.Value(fa) {
				return unwrapIface(st.Val).Type(), true
			}
		}
	}
	return nil, false
}

func literalKind(al *ssa.Alloc) (int64, bool) {
	for _, ref := range referrers(al) {
		fa, ok := ref.(*ssa.FieldAddr)
		if !ok || fieldName(fa.X.Type(), fa.Field) != "flag" {
			continue
		}
		for _, ref2 := range referrers(fa) {
			if st, ok := ref2.(*ssa.Store); ok && st.Addr == ssa.Value(fa) {
				return constInt(st.Val)
			}
		}
	}
	return 0, false
}

// mayBits: union of the bits a value may have set (constants, phis of
// constants, or-combinations, masked loads).
func mayBits(v ssa.Value, depth int) (int64, bool) {
	if depth > 6 {
		return 0, false
	}
	if c, ok := constInt(v); ok {
		return c, true
	}
	switch x := v.(type) {
	case *ssa.Phi:
		var all int64
		for _, e := range x.Edges {
			if e == v {
				continue
			}
			b, ok := mayBits(e, depth+1)
			if !ok {
				return 0, false
			}
			all |= b
		}
		return all, true
	case *ssa.BinOp:
		switch x.Op {
		case token.OR:
			a, ok1 := mayBits(x.X, depth+1)
			b, ok2 := mayBits(x.Y, depth+1)
			return a | b, ok1 && ok2
		case token.AND:
			if m, ok := constInt(x.Y); ok {
				return m, true
			}
			if m, ok := constInt(x.X); ok {
				return m, true
			}
		case token.AND_NOT:
			// x &^ m: the bits of m are cleared (the same as x & ^m over the 8-bit flag)
			if m, ok := constInt(x.Y); ok {
				return 0xFF &^ m, true
			}
		}
	}
	return 0, false
}

// fastRewriteGate: the store is reached only with kind(root.node) == operator,
// len(root.children) == 2 and, through a completed loop, every child's kind in
// {constant, variable}.
func fastRewriteGate(w *World, k nodeKinds, st *ssa.Store) (bool, string) {
	facts := factsAt(st.Block())
	kindOK, lenOK := false, false
	for _, f := range facts {
		if _, kc, isEq, ok := k.kindTest(f.Cond); ok && kc == k.operator && isEq == f.Truth {
			kindOK = true
		}
		if bo, ok := f.Cond.(*ssa.BinOp); ok {
			if x, okl := lenArg(bo.X); okl {
				if _, okc := loadOfField(x, "astNode", "children"); okc {
					if c, okk := constInt(bo.Y); okk && c == 2 && ((bo.Op == token.EQL) == f.Truth) && (bo.Op == token.EQL || bo.Op == token.NEQ) {
						lenOK = true
					}
				}
			}
		}
	}
	if !kindOK {
		return false, "the rewrite to fastOperator is not gated by kind == operator"
	}
	if !lenOK {
		return false, "the rewrite to fastOperator is not gated by exactly two children (the evaluator inlines exactly nodes[i+1], nodes[i+2])"
	}
	// and/or stay on the short-circuit path: the fast arm fetches both operands and applies the operator to both, so
	// `(and x y)` with x false would type-check (and fail on) a y that left-to-right evaluation never looks at
	notBool, notAnd, notOr := false, false, false
	for _, f := range facts {
		if c, ok := f.Cond.(*ssa.Call); ok && !f.Truth && c.Call.StaticCallee() != nil && len(c.Call.Args) == 1 {
			switch nm(c.Call.StaticCallee()) {
			case "isBoolOpNode":
				notBool = true
			case "isAndOpNode":
				notAnd = true
			case "isOrOpNode":
				notOr = true
			}
		}
	}
	if !notBool && !(notAnd && notOr) {
		return false, "the rewrite to fastOperator also applies to and/or: the fast arm applies the operator to both operands, so a two-leaf and/or fails on a wrongly typed second operand that short-circuit evaluation never examines (the value then depends on whether FastEvaluation is enabled)"
	}
	// the loop over children: every back edge to the header carries kind(child) in {constant, variable}
	fn := st.Parent()
	loopOK := false
	for _, b := range fn.Blocks {
		iff, ok := b.Instrs[len(b.Instrs)-1].(*ssa.If)
		if !ok {
			continue
		}
		cmp, ok := iff.Cond.(*ssa.BinOp)
		if !ok || cmp.Op != token.LSS {
			continue
		}
		x, okl := lenArg(cmp.Y)
		if !okl {
			continue
		}
		if _, okc := loadOfField(x, "astNode", "children"); !okc {
			continue
		}
		if _, okh := rangeIndexHeader(cmp.X, x); !okh {
			continue
		}
		if !edgeDominates(b, 1, st.Block()) {
			continue
		}
		all := true
		for _, p := range b.Preds {
			if !b.Dominates(p) {
				continue
			}
			leaf := false
			for _, f := range append(factsAt(p), factsAtEdgeTo(p, b)...) {
				if _, kc, isEq, ok := k.kindTest(f.Cond); ok && isEq == f.Truth && (kc == k.constant || kc == k.variable) {
					leaf = true
				}
			}
			if !leaf {
				all = false
			}
		}
		if all {
			loopOK = true
		}
	}
	if !loopOK {
		return false, "the rewrite to fastOperator is not preceded by a completed check that every child is a constant or a variable"
	}
	return true, ""
}

// ---- R-KINDSWITCH -------------------------------------------------------------

func ruleKindSwitch(w *World, r *Report) {
	const rule = "R-KINDSWITCH"
	r.Rule(rule, "every switch over a node kind in Eval, TryEval, calAndSetNodes, calAndSetStackSize has a case for every kind that can reach it (every opcode has a handler)", 4)
	k := loadNodeKinds(w)
	// kinds = constants declared in the same const block as nodeTypeMask whose value lies inside the mask
	var kindNames []string
	kindVal := map[string]int64{}
	maskObj := w.ConstObj("nodeTypeMask")
	if maskObj == nil {
		r.Unresolved(rule, "nodeTypeMask not found")
		return
	}
	for _, f := range w.Pkg.Syntax {
		for _, d := range f.Decls {
			gd, ok := d.(*ast.GenDecl)
			if !ok || gd.Tok != token.CONST || !(gd.Pos() <= maskObj.Pos() && maskObj.Pos() <= gd.End()) {
				continue
			}
			for _, s := range gd.Specs {
				vs := s.(*ast.ValueSpec)
				for _, id := range vs.Names {
					if id.Name == "nodeTypeMask" {
						continue
					}
					v, ok := w.ConstInt(id.Name)
					if ok && v != 0 && v&^k.mask == 0 {
						kindNames = append(kindNames, id.Name)
						kindVal[id.Name] = v
					}
				}
			}
		}
	}
	sort.Strings(kindNames)
	r.Extra["node_kinds"] = kindNames
	type target struct {
		recv, name string
		mayOmit    map[string]bool // kinds that cannot reach this switch
		needsDflt  bool
	}
	targets := []target{
		{"Expr", "Eval", map[string]bool{}, true},
		{"Expr", "TryEval", map[string]bool{}, true},
		{"", "calAndSetNodes", map[string]bool{"event": true}, false},
		{"", "calAndSetStackSize", map[string]bool{"event": true}, false},
	}
	for _, t := range targets {
		fd := w.FuncDecl(t.recv, t.name)
		if fd == nil {
			r.Unresolved(rule, "function "+t.name+" not found")
			continue
		}
		found := 0
		findSwitches(fd.Body, func(sw *ast.SwitchStmt) {
			if sw.Tag == nil || !isKindExpr(w, sw.Tag, k) {
				return
			}
			found++
			covered := map[int64]bool{}
			hasDefault := false
			for _, cc := range sw.Body.List {
				clause := cc.(*ast.CaseClause)
				if clause.List == nil {
					hasDefault = true
				}
				for _, e := range clause.List {
					if tv := w.Info.Types[e]; tv.Value != nil {
						if v, ok := constantInt(tv.Value); ok {
							covered[v] = true
						}
					}
				}
			}
			var missing []string
			for _, kn := range kindNames {
				if covered[kindVal[kn]] || t.mayOmit[kn] {
					continue
				}
				if hasDefault && kn == "event" {
					continue // the default arm is the event handler
				}
				missing = append(missing, kn)
			}
			r.Check(len(missing) == 0, rule, w.Pos(sw.Pos()), t.name, fmt.Sprintf("switch over node kind: %d explicit cases, default=%v", len(covered), hasDefault),
				"every kind that can reach the switch is handled", fmt.Sprintf("no case for kind(s) %v: such a node would be treated as an event (or skipped)", missing))
		})
		if found == 0 {
			// the same dispatch written as an if / else-if chain: the kinds the function compares a node kind with
			name := t.name
			if t.recv != "" {
				name = "(*" + t.recv + ")." + t.name
			}
			fn := w.Fn(name)
			covered := map[int64]bool{}
			if fn != nil {
				EachInstr(fn, func(in ssa.Instruction) {
					if bo, ok := in.(*ssa.BinOp); ok {
						if _, c, _, okk := k.kindTest(bo); okk {
							covered[c] = true
						}
					}
				})
			}
			if len(covered) == 0 {
				r.Unresolved(rule, "no dispatch over the node kind found in "+t.name)
				continue
			}
			var missing []string
			for _, kn := range kindNames {
				if covered[kindVal[kn]] || t.mayOmit[kn] || (t.needsDflt && kn == "event") {
					continue
				}
				missing = append(missing, kn)
			}
			r.Check(len(missing) == 0, rule, w.Pos(fd.Pos()), t.name, fmt.Sprintf("if-chain over node kind: %d kinds compared", len(covered)),
				"every kind that can reach the dispatch is handled", fmt.Sprintf("no arm for kind(s) %v: such a node would be skipped", missing))
		}
	}
}

// isKindExpr matches `x.flag & nodeTypeMask` and `x.getNodeType()` syntactically with resolved objects.
func isKindExpr(w *World, e ast.Expr, k nodeKinds) bool {
	e = ast.Unparen(e)
	switch x := e.(type) {
	case *ast.CallExpr:
		if sel, ok := x.Fun.(*ast.SelectorExpr); ok {
			if f, ok := w.Info.Uses[sel.Sel].(*types.Func); ok && nm(f) == "getNodeType" {
				return true
			}
		}
	case *ast.BinaryExpr:
		if x.Op == token.AND {
			for _, side := range []ast.Expr{x.X, x.Y} {
				if tv := w.Info.Types[side]; tv.Value != nil {
					if v, ok := constantInt(tv.Value); ok && v == k.mask {
						return true
					}
				}
			}
		}
	case *ast.Ident:
		// a local holding the kind: nodeType := n.flag & nodeTypeMask
		if obj, ok := w.Info.Uses[x].(*types.Var); ok {
			for id, def := range w.Info.Defs {
				if def == obj {
					// find its defining assignment
					for _, f := range w.Pkg.Syntax {
						found := false
						ast.Inspect(f, func(n ast.Node) bool {
							as, ok := n.(*ast.AssignStmt)
							if !ok || len(as.Lhs) != 1 || len(as.Rhs) != 1 {
								return true
							}
							if l, ok := as.Lhs[0].(*ast.Ident); ok && l == id && isKindExpr(w, as.Rhs[0], k) {
								found = true
							}
							return true
						})
						if found {
							return true
						}
					}
				}
			}
		}
	}
	return false
}

var c01Witnesses = append(append(append(stepWitnessesEval, tableWitnesses...), boolArityWitnesses...), []Witness{
	{Name: "fetcher-error-wrapped", Rule: "R-ERRID", Edits: []Edit{
		{File: "engine.go", Old: "		case variable:\n			res, err = ctx.Get(curt.varKey, curt.value.(string))\n			if err != nil {\n				return\n			}\n		case constant:\n			res = curt.value\n		case operator:\n			cCnt := int16(curt.childCnt)\n			osTop = osTop - cCnt\n			if cCnt == 2 {\n				param2[0], param2[1] = os[osTop+1], os[osTop+2]\n				params = param2[:]", New: "		case variable:\n			res, err = ctx.Get(curt.varKey, curt.value.(string))\n			if err != nil {\n				return nil, fmt.Errorf(\"variable %v: %v\", curt.value, err)\n			}\n		case constant:\n			res = curt.value\n		case operator:\n			cCnt := int16(curt.childCnt)\n			osTop = osTop - cCnt\n			if cCnt == 2 {\n				param2[0], param2[1] = os[osTop+1], os[osTop+2]\n				params = param2[:]"},
		{File: "engine.go", Old: "import (\n	\"context\"\n	\"errors\"\n)", New: "import (\n	\"context\"\n	\"errors\"\n	\"fmt\"\n)"}}},
	{Name: "evalbool-masks-error", Rule: "R-ERRID", Edits: []Edit{
		{File: "engine.go", Old: "	res, err := e.Eval(ctx)\n	if err != nil {\n		return false, err\n	}", New: "	res, err := e.Eval(ctx)\n	if err != nil {\n		return false, errors.New(\"evaluation failed\")\n	}"}}},
	{Name: "benign-eval-arms-share-one-error-check", Rule: "R-ERRCHK", Benign: true, Edits: []Edit{
		{File: "engine.go", Old: "\t\t\tres, err = curt.operator(ctx, param2[:])\n\t\t\tif err != nil {\n\t\t\t\treturn\n\t\t\t}\n\t\tcase variable:\n\t\t\tres, err = ctx.Get(curt.varKey, curt.value.(string))\n\t\t\tif err != nil {\n\t\t\t\treturn\n\t\t\t}\n\t\tcase constant:", New: "\t\t\tres, err = curt.operator(ctx, param2[:])\n\t\tcase variable:\n\t\t\tres, err = ctx.Get(curt.varKey, curt.value.(string))\n\t\tcase constant:"},
		{File: "engine.go", Old: "\t\t\tres, err = curt.operator(ctx, params)\n\t\t\tif err != nil {\n\t\t\t\treturn\n\t\t\t}\n\t\tcase cond:", New: "\t\t\tres, err = curt.operator(ctx, params)\n\t\tcase cond:"},
		{File: "engine.go", Old: "\t\t\treportEvent(e, os, osTop, curt.value)\n\t\t\tcontinue\n\t\t}\n\t\tif b, ok := res.(bool); ok {", New: "\t\t\treportEvent(e, os, osTop, curt.value)\n\t\t\tcontinue\n\t\t}\n\t\tif err != nil {\n\t\t\treturn\n\t\t}\n\t\tif b, ok := res.(bool); ok {"}}},
	{Name: "shared-error-check-returns-nil-error", Rule: "R-ERRCHK", Edits: []Edit{
		{File: "engine.go", Old: "\t\t\tres, err = curt.operator(ctx, param2[:])\n\t\t\tif err != nil {\n\t\t\t\treturn\n\t\t\t}\n\t\tcase variable:\n\t\t\tres, err = ctx.Get(curt.varKey, curt.value.(string))\n\t\t\tif err != nil {\n\t\t\t\treturn\n\t\t\t}\n\t\tcase constant:", New: "\t\t\tres, err = curt.operator(ctx, param2[:])\n\t\tcase variable:\n\t\t\tres, err = ctx.Get(curt.varKey, curt.value.(string))\n\t\tcase constant:"},
		{File: "engine.go", Old: "\t\t\tres, err = curt.operator(ctx, params)\n\t\t\tif err != nil {\n\t\t\t\treturn\n\t\t\t}\n\t\tcase cond:", New: "\t\t\tres, err = curt.operator(ctx, params)\n\t\tcase cond:"},
		{File: "engine.go", Old: "\t\t\treportEvent(e, os, osTop, curt.value)\n\t\t\tcontinue\n\t\t}\n\t\tif b, ok := res.(bool); ok {", New: "\t\t\treportEvent(e, os, osTop, curt.value)\n\t\t\tcontinue\n\t\t}\n\t\tif err != nil {\n\t\t\treturn res, nil\n\t\t}\n\t\tif b, ok := res.(bool); ok {"}}},
	{Name: "cond-error-check-dropped", Rule: "R-ERRCHK", Edits: []Edit{
		{File: "engine.go", Old: "			res, err = curt.operator(ctx, []Value{res})\n			if err != nil {\n				return\n			}\n			if res == true {\n				osTop = curt.osTop\n				i = curt.scIdx\n			}\n			continue\n		default:\n			reportEvent(e, os, osTop, curt.value)\n			continue\n		}\n		if b, ok := res.(bool); ok {", New: "			res, err = curt.operator(ctx, []Value{res})\n			if res == true {\n				osTop = curt.osTop\n				i = curt.scIdx\n			}\n			continue\n		default:\n			reportEvent(e, os, osTop, curt.value)\n			continue\n		}\n		if b, ok := res.(bool); ok {"}}},
	{Name: "tryeval-second-operand-error-ignored", Rule: "R-ERRCHK", Edits: []Edit{
		{File: "engine.go", Old: "			param2[1], err = getNodeValueProxy(ctx, nodes[i+2])\n			if err != nil {\n				return\n			}", New: "			param2[1], _ = getNodeValueProxy(ctx, nodes[i+2])"}}},
	{Name: "variable-shadows-constant", Rule: "R-LEAFORDER", Edits: []Edit{
		{File: "parser.go", Old: "		p.parseInt, p.parseStr, p.parseConst, p.parseVariable, p.parseUnknownVariable}", New: "		p.parseInt, p.parseStr, p.parseVariable, p.parseConst, p.parseUnknownVariable}"}}},
	{Name: "leaf-loop-last-match-wins", Rule: "R-LEAFORDER", Edits: []Edit{
		{File: "parser.go", Old: "		ast, err = fn()\n		if ast != nil || err != nil {\n			return ast, err\n		}", New: "		ast, err = fn()\n		if err != nil {\n			return ast, err\n		}"}}},
	{Name: "fast-rewrite-for-three-children", Rule: "R-KIND", Edits: []Edit{
		{File: "compiler.go", Old: "	if (n.flag&nodeTypeMask) != operator || len(root.children) != 2 {", New: "	if (n.flag&nodeTypeMask) != operator || len(root.children) < 2 {"}}},
	{Name: "fast-rewrite-also-for-and-or", Rule: "R-KIND", Doc: "revert of the D16 repair", Edits: []Edit{
		{File: "compiler.go", Old: "	if isBoolOpNode(n) {\n		return\n	}\n\n	for _, child := range root.children {\n		typ := child.node.getNodeType()", New: "	for _, child := range root.children {\n		typ := child.node.getNodeType()"}}},
	{Name: "fast-rewrite-excludes-only-and", Rule: "R-KIND", Edits: []Edit{
		{File: "compiler.go", Old: "	if isBoolOpNode(n) {\n		return\n	}\n\n	for _, child := range root.children {\n		typ := child.node.getNodeType()", New: "	if isAndOpNode(n) {\n		return\n	}\n\n	for _, child := range root.children {\n		typ := child.node.getNodeType()"}}},
	{Name: "benign-fast-rewrite-excludes-and-or-separately", Benign: true, Edits: []Edit{
		{File: "compiler.go", Old: "	if isBoolOpNode(n) {\n		return\n	}\n\n	for _, child := range root.children {\n		typ := child.node.getNodeType()", New: "	if isAndOpNode(n) || isOrOpNode(n) {\n		return\n	}\n\n	for _, child := range root.children {\n		typ := child.node.getNodeType()"}}},
	{Name: "fast-rewrite-allows-operator-child", Rule: "R-KIND", Edits: []Edit{
		{File: "compiler.go", Old: "		typ := child.node.getNodeType()\n		if typ == constant || typ == variable {\n			continue\n		}\n		return", New: "		typ := child.node.getNodeType()\n		if typ == constant || typ == variable || len(child.children) == 0 {\n			continue\n		}\n		return"}}},
	{Name: "variable-node-with-key-as-value", Rule: "R-KIND", Edits: []Edit{
		{File: "parser.go", Old: "			flag:   variable,\n			value:  t.val,\n			varKey: key,", New: "			flag:   variable,\n			value:  key,\n			varKey: key,"}}},
	{Name: "new-kind-without-eval-case", Rule: "R-KINDSWITCH", Edits: []Edit{
		{File: "engine.go", Old: "	cond         = uint8(0b00000101)", New: "	cond         = uint8(0b00000101)\n	lambda       = uint8(0b00000110)"}}},
	{Name: "benign-errchk-inverted-test", Benign: true, Edits: []Edit{
		{File: "engine.go", Old: "			res, err = executeOperatorProxy(ctx, curt, param)\n			if err != nil {\n				return\n			}", New: "			res, err = executeOperatorProxy(ctx, curt, param)\n			if nil == err {\n				_ = res\n			} else {\n				return\n			}"}}},
}...)
