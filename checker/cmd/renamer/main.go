// renamer: writes a copy of a Go package in which every local variable, parameter and named result is renamed
// (a mechanical behaviour-preserving variant used to test the checker for name-keyed matching).
package main

import (
	"bytes"
	"flag"
	"fmt"
	"go/ast"
	"go/format"
	"go/token"
	"go/types"
	"os"
	"path/filepath"
	"strings"

	"golang.org/x/tools/go/packages"
)

func main() {
	src := flag.String("src", "/repo", "package directory")
	dst := flag.String("dst", "", "output directory (a copy of src, e.g. a scratch worktree)")
	suffix := flag.String("suffix", "Rn", "suffix appended to every local name")
	mode := flag.String("mode", "rename", "rename | flipcmp | invertif")
	flag.Parse()
	cfg := &packages.Config{Mode: packages.LoadAllSyntax, Dir: *src, Env: append(os.Environ(), "GOFLAGS=-mod=mod", "GOPROXY=off", "GOSUMDB=off", "GOWORK=off")}
	pkgs, err := packages.Load(cfg, ".")
	if err != nil || len(pkgs) != 1 || len(pkgs[0].Errors) > 0 {
		fmt.Fprintln(os.Stderr, "load failed", err)
		os.Exit(2)
	}
	p := pkgs[0]
	renamed := 0
	isLocal := func(obj types.Object) bool {
		v, ok := obj.(*types.Var)
		if !ok || v.IsField() || v.Name() == "_" || v.Name() == "" {
			return false
		}
		if v.Parent() == nil || v.Parent() == p.Types.Scope() || v.Parent() == types.Universe {
			return false
		}
		return true
	}
	for i, f := range p.Syntax {
		name := p.CompiledGoFiles[i]
		if strings.HasSuffix(name, "_test.go") {
			continue
		}
		if *mode == "flipcmp" {
			simple := func(e ast.Expr) bool {
				ok := true
				ast.Inspect(e, func(n ast.Node) bool {
					switch x := n.(type) {
					case *ast.CallExpr:
						if id, isId := x.Fun.(*ast.Ident); !isId || (id.Name != "len" && id.Name != "int" && id.Name != "int16" && id.Name != "int64") {
							ok = false
						}
					case *ast.FuncLit, *ast.UnaryExpr:
						if u, isU := n.(*ast.UnaryExpr); isU && u.Op == token.ARROW {
							ok = false
						}
					}
					return ok
				})
				return ok
			}
			mirror := map[token.Token]token.Token{token.LSS: token.GTR, token.GTR: token.LSS, token.LEQ: token.GEQ, token.GEQ: token.LEQ, token.EQL: token.EQL, token.NEQ: token.NEQ}
			ast.Inspect(f, func(n ast.Node) bool {
				be, ok := n.(*ast.BinaryExpr)
				if !ok {
					return true
				}
				if m, okm := mirror[be.Op]; okm && simple(be.X) && simple(be.Y) {
					be.X, be.Y = be.Y, be.X
					be.Op = m
					renamed++
				}
				return true
			})
		}
		if *mode == "reorder" {
			// reverse the order of the top-level declarations that follow the imports (comments are dropped from the
			// file so that they cannot end up inside another declaration)
			f.Comments = nil
			var head, rest []ast.Decl
			for _, d := range f.Decls {
				if gd, ok := d.(*ast.GenDecl); ok && gd.Tok == token.IMPORT {
					head = append(head, d)
				} else {
					rest = append(rest, d)
				}
			}
			for i, j := 0, len(rest)-1; i < j; i, j = i+1, j-1 {
				rest[i], rest[j] = rest[j], rest[i]
			}
			f.Decls = append(head, rest...)
			renamed += len(rest)
		}
		if *mode == "invertif" {
			ast.Inspect(f, func(n ast.Node) bool {
				is, ok := n.(*ast.IfStmt)
				if !ok || is.Else == nil {
					return true
				}
				eb, isBlock := is.Else.(*ast.BlockStmt)
				if !isBlock {
					return true
				}
				is.Cond = &ast.UnaryExpr{Op: token.NOT, X: &ast.ParenExpr{X: is.Cond}}
				is.Body, is.Else = eb, is.Body
				renamed++
				return true
			})
		}
		ast.Inspect(f, func(n ast.Node) bool {
			if *mode != "rename" {
				return false
			}
			id, ok := n.(*ast.Ident)
			if !ok {
				return true
			}
			obj := p.TypesInfo.Defs[id]
			if obj == nil {
				obj = p.TypesInfo.Uses[id]
			}
			if obj != nil && isLocal(obj) {
				id.Name = id.Name + *suffix
				renamed++
			}
			return true
		})
		// implicit objects of type switches (x := v.(type)) have no Defs entry per clause; handled through Uses of the
		// clause-local objects, whose declaring ident is the one in the guard: rename that too
		ast.Inspect(f, func(n ast.Node) bool {
			if *mode != "rename" {
				return false
			}
			ts, ok := n.(*ast.TypeSwitchStmt)
			if !ok {
				return true
			}
			if as, ok := ts.Assign.(*ast.AssignStmt); ok && len(as.Lhs) == 1 {
				if id, ok := as.Lhs[0].(*ast.Ident); ok && !strings.HasSuffix(id.Name, *suffix) && id.Name != "_" {
					id.Name = id.Name + *suffix
				}
			}
			return true
		})
		var buf bytes.Buffer
		if err := format.Node(&buf, p.Fset, f); err != nil {
			fmt.Fprintln(os.Stderr, err)
			os.Exit(2)
		}
		if err := os.WriteFile(filepath.Join(*dst, filepath.Base(name)), buf.Bytes(), 0o644); err != nil {
			fmt.Fprintln(os.Stderr, err)
			os.Exit(2)
		}
	}
	fmt.Println("renamed identifiers:", renamed)
}
