// mutloop: mechanical "loop leaves early" mutants of the library, for probing the checks' detection.
//
//	mutloop -src /repo -list                 prints one line per loop: index file:line function kind
//	mutloop -src /repo -k N -limit K -dst D  writes the file containing loop N, with that loop leaving after K
//	                                         iterations, into directory D (same file name)
//
// Only non-test files of the root package are looked at; labelled loops are skipped.
package main

import (
	"bytes"
	"flag"
	"fmt"
	"go/ast"
	"go/format"
	"go/parser"
	"go/token"
	"os"
	"path/filepath"
	"sort"
	"strings"
)

type loop struct {
	file string
	fn   string
	pos  token.Position
	stmt ast.Stmt
	list *[]ast.Stmt
	idx  int
	f    *ast.File
}

func main() {
	src := flag.String("src", "/repo", "library root")
	list := flag.Bool("list", false, "list loops")
	k := flag.Int("k", -1, "loop index to mutate")
	limit := flag.Int("limit", 2, "iterations before the loop leaves")
	mode := flag.String("mode", "break", "break: the loop leaves after -limit iterations; skip: the loop skips iteration number -limit+1; lit: integer literal number k is incremented; errnil: the k-th `return …, err` returns nil instead; cmp: the k-th strict/non-strict ordered comparison is toggled (< <-> <=, > <-> >=); del: the k-th assignment / call statement is dropped (++ becomes --); neg: the k-th if condition is negated; andor: && <-> ||; eq: == <-> !=; arith: + <-> -; ctl: break <-> continue; ifdel: the body of the k-th else-less if never runs")
	dst := flag.String("dst", "", "output directory")
	flag.Parse()

	fset := token.NewFileSet()
	files, _ := filepath.Glob(filepath.Join(*src, "*.go"))
	sort.Strings(files)
	var loops []loop
	type site struct {
		file string
		fn   string
		pos  token.Position
		f    *ast.File
		node ast.Node
	}
	var lits, errRets, cmps []site
	var dels, negs, andors, eqs, ariths, ctls, ifdels []site
	for _, fname := range files {
		if strings.HasSuffix(fname, "_test.go") {
			continue
		}
		f, err := parser.ParseFile(fset, fname, nil, parser.ParseComments)
		if err != nil {
			fmt.Fprintln(os.Stderr, err)
			os.Exit(2)
		}
		for _, d := range f.Decls {
			fd, ok := d.(*ast.FuncDecl)
			if !ok || fd.Body == nil {
				continue
			}
			var visitList func(l *[]ast.Stmt)
			visitList = func(l *[]ast.Stmt) {
				for i, s := range *l {
					switch s.(type) {
					case *ast.ForStmt, *ast.RangeStmt:
						loops = append(loops, loop{file: fname, fn: fd.Name.Name, pos: fset.Position(s.Pos()), stmt: s, list: l, idx: i, f: f})
					}
				}
			}
			ast.Inspect(fd.Body, func(n ast.Node) bool {
				switch x := n.(type) {
				case *ast.BasicLit:
					if x.Kind == token.INT {
						lits = append(lits, site{fname, fd.Name.Name, fset.Position(x.Pos()), f, x})
					}
				case *ast.ReturnStmt:
					if len(x.Results) >= 2 {
						if id, ok := x.Results[len(x.Results)-1].(*ast.Ident); ok && id.Name == "err" {
							errRets = append(errRets, site{fname, fd.Name.Name, fset.Position(x.Pos()), f, x})
						}
					}
				case *ast.BinaryExpr:
					switch x.Op {
					case token.LSS, token.LEQ, token.GTR, token.GEQ:
						cmps = append(cmps, site{fname, fd.Name.Name, fset.Position(x.Pos()), f, x})
					case token.LAND, token.LOR:
						andors = append(andors, site{fname, fd.Name.Name, fset.Position(x.Pos()), f, x})
					case token.EQL, token.NEQ:
						eqs = append(eqs, site{fname, fd.Name.Name, fset.Position(x.Pos()), f, x})
					case token.ADD, token.SUB:
						ariths = append(ariths, site{fname, fd.Name.Name, fset.Position(x.Pos()), f, x})
					}
				case *ast.BranchStmt:
					if x.Label == nil && (x.Tok == token.BREAK || x.Tok == token.CONTINUE) {
						ctls = append(ctls, site{fname, fd.Name.Name, fset.Position(x.Pos()), f, x})
					}
				case *ast.IfStmt:
					negs = append(negs, site{fname, fd.Name.Name, fset.Position(x.Pos()), f, x})
					if x.Else == nil && x.Init == nil {
						ifdels = append(ifdels, site{fname, fd.Name.Name, fset.Position(x.Pos()), f, x})
					}
				case *ast.AssignStmt:
					if x.Tok != token.DEFINE {
						dels = append(dels, site{fname, fd.Name.Name, fset.Position(x.Pos()), f, x})
					}
				case *ast.IncDecStmt:
					dels = append(dels, site{fname, fd.Name.Name, fset.Position(x.Pos()), f, x})
				case *ast.ExprStmt:
					dels = append(dels, site{fname, fd.Name.Name, fset.Position(x.Pos()), f, x})
				}
				switch x := n.(type) {
				case *ast.BlockStmt:
					visitList(&x.List)
				case *ast.CaseClause:
					visitList(&x.Body)
				case *ast.CommClause:
					visitList(&x.Body)
				}
				return true
			})
		}
	}
	if m, ok := map[string][]site{"lit": lits, "errnil": errRets, "cmp": cmps, "del": dels, "neg": negs, "andor": andors, "eq": eqs, "arith": ariths, "ctl": ctls, "ifdel": ifdels}[*mode]; ok {
		sites := m
		if *list {
			for i, st := range sites {
				fmt.Printf("%d %s:%d %s %s\n", i, filepath.Base(st.file), st.pos.Line, st.fn, *mode)
			}
			return
		}
		if *k < 0 || *k >= len(sites) || *dst == "" {
			fmt.Fprintln(os.Stderr, "need -k in range and -dst")
			os.Exit(2)
		}
		st := sites[*k]
		switch x := st.node.(type) {
		case *ast.BasicLit:
			var v int64
			if _, err := fmt.Sscan(x.Value, &v); err != nil {
				if _, err2 := fmt.Sscanf(x.Value, "0x%x", &v); err2 != nil {
					fmt.Fprintln(os.Stderr, "unparsable literal", x.Value)
					os.Exit(3)
				}
			}
			x.Value = fmt.Sprint(v + 1)
		case *ast.ReturnStmt:
			x.Results[len(x.Results)-1] = ast.NewIdent("nil")
		case *ast.BinaryExpr:
			x.Op = map[token.Token]token.Token{token.LSS: token.LEQ, token.LEQ: token.LSS, token.GTR: token.GEQ, token.GEQ: token.GTR,
				token.LAND: token.LOR, token.LOR: token.LAND, token.EQL: token.NEQ, token.NEQ: token.EQL, token.ADD: token.SUB, token.SUB: token.ADD}[x.Op]
		case *ast.BranchStmt:
			// break <-> continue (a dropped break in a switch case would change nothing; the swap changes the loop)
			x.Tok = map[token.Token]token.Token{token.BREAK: token.CONTINUE, token.CONTINUE: token.BREAK}[x.Tok]
		case *ast.IfStmt:
			if *mode == "ifdel" {
				// the guarded statement is dropped: `if c { … }` becomes `if c && false { … }` (the condition is still evaluated)
				x.Cond = &ast.BinaryExpr{X: &ast.ParenExpr{X: x.Cond}, Op: token.LAND, Y: ast.NewIdent("false")}
			} else {
				x.Cond = &ast.UnaryExpr{Op: token.NOT, X: &ast.ParenExpr{X: x.Cond}}
			}
		case *ast.AssignStmt:
			// the statement is deleted: `a = b` becomes `_ = b` (operands stay used, the build keeps working), `a op= b` likewise
			for i := range x.Lhs {
				x.Lhs[i] = ast.NewIdent("_")
			}
			if x.Tok != token.ASSIGN {
				x.Tok = token.ASSIGN
			}
		case *ast.IncDecStmt:
			x.Tok = map[token.Token]token.Token{token.INC: token.DEC, token.DEC: token.INC}[x.Tok]
		case *ast.ExprStmt:
			// a call statement is dropped: replaced by a call of an empty function literal
			x.X = &ast.CallExpr{Fun: &ast.FuncLit{Type: &ast.FuncType{Params: &ast.FieldList{}}, Body: &ast.BlockStmt{}}}
		}
		var buf bytes.Buffer
		if err := format.Node(&buf, fset, st.f); err != nil {
			fmt.Fprintln(os.Stderr, err)
			os.Exit(2)
		}
		if err := os.WriteFile(filepath.Join(*dst, filepath.Base(st.file)), buf.Bytes(), 0o644); err != nil {
			fmt.Fprintln(os.Stderr, err)
			os.Exit(2)
		}
		fmt.Printf("%d %s:%d %s\n", *k, filepath.Base(st.file), st.pos.Line, st.fn)
		return
	}
	if *list {
		for i, l := range loops {
			kind := "for"
			if _, ok := l.stmt.(*ast.RangeStmt); ok {
				kind = "range"
			}
			fmt.Printf("%d %s:%d %s %s\n", i, filepath.Base(l.file), l.pos.Line, l.fn, kind)
		}
		return
	}
	if *k < 0 || *k >= len(loops) || *dst == "" {
		fmt.Fprintln(os.Stderr, "need -k in range and -dst")
		os.Exit(2)
	}
	l := loops[*k]
	cnt := fmt.Sprintf("mutloopCnt%d", *k)
	guard := &ast.IfStmt{
		Init: &ast.IncDecStmt{X: ast.NewIdent(cnt), Tok: token.INC},
		Cond: &ast.BinaryExpr{X: ast.NewIdent(cnt), Op: token.GTR, Y: &ast.BasicLit{Kind: token.INT, Value: fmt.Sprint(*limit)}},
		Body: &ast.BlockStmt{List: []ast.Stmt{&ast.BranchStmt{Tok: token.BREAK}}},
	}
	if fs, isFor := l.stmt.(*ast.ForStmt); isFor && fs.Post == nil && *mode == "skip" {
		fmt.Fprintln(os.Stderr, "condition-only loop: a skipped iteration would not advance")
		os.Exit(3)
	}
	if *mode == "skip" {
		guard.Cond.(*ast.BinaryExpr).Op = token.EQL
		guard.Cond.(*ast.BinaryExpr).Y = &ast.BasicLit{Kind: token.INT, Value: fmt.Sprint(*limit + 1)}
		guard.Body.List[0] = &ast.BranchStmt{Tok: token.CONTINUE}
	}
	switch x := l.stmt.(type) {
	case *ast.ForStmt:
		x.Body.List = append([]ast.Stmt{guard}, x.Body.List...)
	case *ast.RangeStmt:
		x.Body.List = append([]ast.Stmt{guard}, x.Body.List...)
	}
	decl := &ast.AssignStmt{Lhs: []ast.Expr{ast.NewIdent(cnt)}, Tok: token.DEFINE, Rhs: []ast.Expr{&ast.BasicLit{Kind: token.INT, Value: "0"}}}
	nl := append([]ast.Stmt{}, (*l.list)[:l.idx]...)
	nl = append(nl, decl)
	nl = append(nl, (*l.list)[l.idx:]...)
	*l.list = nl
	var buf bytes.Buffer
	if err := format.Node(&buf, fset, l.f); err != nil {
		fmt.Fprintln(os.Stderr, err)
		os.Exit(2)
	}
	if err := os.WriteFile(filepath.Join(*dst, filepath.Base(l.file)), buf.Bytes(), 0o644); err != nil {
		fmt.Fprintln(os.Stderr, err)
		os.Exit(2)
	}
	fmt.Printf("%d %s:%d %s\n", *k, filepath.Base(l.file), l.pos.Line, l.fn)
}
