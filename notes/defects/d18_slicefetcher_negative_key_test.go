package eval

import "testing"

func TestD18(t *testing.T) {
	cc := NewConfig(EnableUndefinedVariable, RegVarAndOp(map[string]interface{}{"a": 1}))
	e, err := Compile(cc, "(+ a zz)")
	if err != nil {
		t.Fatal(err)
	}
	ctx := &Ctx{VariableFetcher: NewSliceVarFetcher(cc, map[string]interface{}{"a": 1})}
	defer func() {
		if r := recover(); r != nil {
			t.Fatalf("Eval panicked: %v", r)
		}
	}()
	_, err = e.Eval(ctx)
	if err == nil {
		t.Fatal("want error for undefined variable zz")
	}
	if _, err = e.TryEval(ctx); err != nil {
		_ = err
	}
}
